#!/usr/bin/env python3
"""Regenerates seeded/README.md from seeded/<id>/{meta.json,patch.diff,notes.md}."""
import json, os, re
R = os.path.join(os.path.dirname(os.path.abspath(__file__)), "seeded")
ids = sorted(d for d in os.listdir(R) if os.path.isdir(os.path.join(R, d)))
rows = []
first = now = 0
for i in ids:
    m = json.load(open(os.path.join(R, i, "meta.json")))
    diff = open(os.path.join(R, i, "patch.diff")).read()
    files = re.findall(r"^diff --git a/(\S+)", diff, re.M)
    needs = m.get("needs", "")
    line = ""
    for l in needs.splitlines():
        l = l.strip().lstrip("-* ").strip()
        if l and not l.startswith("#"):
            line = l
            break
    line = line.replace("|", "\\|")[:230]
    f = m.get("first_run_detected", m.get("detected_by_quick"))
    n = m.get("detected_by_quick") or bool(m.get("detected_by"))
    first += bool(f)
    now += bool(n)
    st = m.get("strengthening", "").replace("|", "\\|")
    if m.get("detected_by"):
        st += " (caught by %s)" % m["detected_by"]
    rows.append("| %s | %s | %s | %s | %s | %s |" % (i, ", ".join(files), line, "yes" if f else "no", "yes" if n else "NO", st))
head = """# Seeded changes

%d changes in thirteen rounds: one per property (ids Cxx), then further ones (ids Cxxb, Cxxc, ...) for which the agent was told
which mechanisms the earlier changes for that property had used and asked for a different one. Each was written by an
independent sub-agent that was given only the property text and its own scratch worktree of /repo (nothing from
/verif). Every change compiles (also with `-tags verif`), passes the 171 baseline tests and comes with a demonstration
test that fails with the change and passes without it; all of that was re-confirmed here with `./seedcheck <Cxx>
[suffix]` (apply `patch.diff` in a scratch worktree, run the suite, run `demo_test.go` with and without, then
`VERIF_REPO=<worktree> ./run <Cxx> quick`). `meta.json` records the outcome. None of these changes is ever committed
to /repo. Caught by the quick tier as it stood when the change arrived: %d; caught now: %d.

| id | file changed | what the change is (from the agent's notes) | caught by the quick tier as it stood | caught now | strengthening |
|---|---|---|---|---|---|
""" % (len(ids), first, now)
open(os.path.join(R, "README.md"), "w").write(head + "\n".join(rows) + "\n")
print(len(ids), first, now)
