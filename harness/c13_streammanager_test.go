package harness

// C13 — StreamManager re-establishes exactly one working session after each
// loss. Fault sequences on successive connections of a Client run by a
// StreamManager against the scripted peer.

import (
	"net"
	"runtime"
	"strings"
	"fmt"
	"sync"
	"testing"
	"time"

	xmpp "gosrc.io/xmpp"
	"gosrc.io/xmpp/stanza"
	"pgregory.net/rapid"
	"verifharness/peer"
	"verifharness/vh"
)

type c13Loss struct {
	End    string   `json:"end"`    // reset close streamclose
	After  int      `json:"after"`  // stanzas exchanged before the loss
	DownMs int      `json:"down"`   // how long the server refuses connections after the loss (0 = keeps listening)
	Fails  []string `json:"fails"`  // reconnection attempts that fail during negotiation (transient): cut-open1 cut-auth cut-bind
	Resume bool     `json:"resume"` // the server confirms the resumption (otherwise <failed/> and fresh bind)
}

type c13Case struct {
	SM        bool      `json:"sm"`
	Losses    []c13Loss `json:"losses"`
	Permanent string    `json:"permanent"` // "", sasl-failure: the reconnection after the last loss is rejected for good
	// StopWhileDown: Stop is called while the server refuses connections after the last loss (a reconnection loop is
	// running); Run must return all the same
	StopWhileDown bool `json:"stop_while_down,omitempty"`
	// KeepaliveMs: keepalive interval of the client (0 = the 30 s default, which never fires within a case); a short one
	// makes keepalives fall into the time the manager spends reconnecting
	KeepaliveMs int `json:"keepalive_ms,omitempty"`
	// TLS: every connection is upgraded with STARTTLS and the client insists on it (Insecure off)
	TLS bool `json:"tls,omitempty"`
}

func genC13(t *rapid.T) c13Case {
	var c c13Case
	c.SM = rapid.Bool().Draw(t, "sm")
	if rapid.IntRange(0, 2).Draw(t, "shortKeepalive") == 0 {
		c.KeepaliveMs = rapid.IntRange(2, 40).Draw(t, "keepaliveMs")
	}
	c.TLS = rapid.IntRange(0, 2).Draw(t, "tls") == 0
	n := rapid.IntRange(1, 3).Draw(t, "nloss")
	for i := 0; i < n; i++ {
		ends := []string{"reset", "close", "close", "streamclose", "streamerror"}
		if c.KeepaliveMs > 0 {
			// a reset makes reads and writes fail at the same moment: the keepalive may notice the loss first
			ends = []string{"reset", "reset", "reset", "close", "streamclose", "streamerror"}
		}
		l := c13Loss{
			End:    rapid.SampledFrom(ends).Draw(t, "end"),
			After:  rapid.IntRange(0, 3).Draw(t, "after"),
			Resume: rapid.Bool().Draw(t, "resume"),
		}
		if rapid.IntRange(0, 2).Draw(t, "down") == 0 {
			l.DownMs = rapid.IntRange(10, 150).Draw(t, "downMs")
		}
		nf := rapid.SampledFrom([]int{0, 0, 1, 2, 3}).Draw(t, "nfails")
		for j := 0; j < nf; j++ {
			l.Fails = append(l.Fails, rapid.SampledFrom([]string{"cut-open1", "cut-auth", "cut-bind"}).Draw(t, "fail"))
		}
		c.Losses = append(c.Losses, l)
	}
	switch rapid.IntRange(0, 5).Draw(t, "tail") {
	case 0:
		c.Permanent = "sasl-failure"
	case 1:
		c.StopWhileDown = true
		c.Losses[len(c.Losses)-1].DownMs = 150
	}
	return c
}

type c13Session struct {
	pc      *peer.Conn
	out     *peer.Outcome
	resumed bool
	recvd   chan peer.Event
}

func firstOr(l []string, d string) string {
	if len(l) > 0 {
		return l[0]
	}
	return d
}

func runC13(c c13Case) vh.Result {
	var res vh.Result
	if c.KeepaliveMs > 0 {
		res.Label("short-keepalive")
	}
	if c.TLS {
		res.Label("starttls")
	}
	var mu sync.Mutex
	accepted := 0                  // connections accepted by the peer (all listeners)
	t00 := time.Now()
	var connLog []string // one line per accepted connection: when, which plan entry it got, how far the negotiation went
	type connInfo struct {
		what        string
		steps       []string
		established bool
		done        bool
	}
	var conns []*connInfo // in the order of acceptance
	var plan []string              // behaviour for the next accepted connections: ok-resume ok-bind cut-* sasl-failure
	sessions := make(chan *c13Session, 8)
	var handler func(pc *peer.Conn)
	handler = func(pc *peer.Conn) {
		mu.Lock()
		accepted++
		what := "ok-bind"
		if len(plan) > 0 {
			what = plan[0]
			plan = plan[1:]
		}
		info := &connInfo{what: what}
		conns = append(conns, info)
		mu.Unlock()
		script := &peer.Script{Mechs: []string{"PLAIN"}, OfferSM: true, ExpectEnable: c.SM, SMId: "sm-c13", ResumeReply: "failed", OfferTLS: c.TLS, Cert: "valid"}
		switch what {
		case "ok-resume":
			script.ResumeReply = "resumed-same"
		case "cut-open1":
			script.Dev = map[string]peer.Dev{"open1": {Kind: "close"}}
		case "cut-auth":
			script.Dev = map[string]peer.Dev{"auth": {Kind: "close"}}
		case "cut-bind":
			script.Dev = map[string]peer.Dev{"bind": {Kind: "close"}, "resume": {Kind: "close"}}
		case "sasl-failure":
			script.Dev = map[string]peer.Dev{"auth": {Kind: "failure"}}
		}
		at := time.Since(t00).Round(time.Millisecond)
		out := pc.Negotiate(script, 10*time.Second)
		mu.Lock()
		connLog = append(connLog, fmt.Sprintf("#%d +%v %s steps=%v established=%v", pc.Index, at, what, out.Steps, out.Established))
		info.steps, info.established, info.done = out.Steps, out.Established, true
		mu.Unlock()
		if !out.Established {
			pc.AfterFault(3 * time.Second)
			return
		}
		s := &c13Session{pc: pc, out: out, resumed: out.Resumed, recvd: make(chan peer.Event, 64)}
		sessions <- s
		for {
			ev := pc.NextElem(60 * time.Second)
			if ev.Kind == "elem" {
				select {
				case s.recvd <- ev:
				default:
				}
				continue
			}
			if ev.Kind == "close" {
				pc.Send("</stream:stream>")
			}
			return
		}
	}
	srv, err := peer.Listen(handler)
	if err != nil {
		res.Fail("harness", "listen: %v", err)
		return res
	}
	addr := srv.Addr
	servers := []*peer.Server{srv}
	defer func() {
		mu.Lock()
		ss := append([]*peer.Server(nil), servers...)
		mu.Unlock()
		for _, s := range ss {
			s.Close()
		}
	}()
	cl, rec, _, err := newTestClientCfg(addr, clientOpt{Insecure: !c.TLS, SM: c.SM, Keepalive: time.Duration(c.KeepaliveMs) * time.Millisecond})
	if err != nil {
		res.Fail("harness", "NewClient: %v", err)
		return res
	}
	postConnects := 0
	var pcMu sync.Mutex
	sm := xmpp.NewStreamManager(cl, func(s xmpp.Sender) {
		pcMu.Lock()
		postConnects++
		pcMu.Unlock()
	})
	runDone := make(chan error, 1)
	go func() { runDone <- sm.Run() }()
	// the recorder's handlers were replaced by the StreamManager's; route handler still records stanzas
	nextSession := func(timeout time.Duration) *c13Session {
		select {
		case s := <-sessions:
			return s
		case <-time.After(timeout):
			return nil
		}
	}
	desc := fmt.Sprintf("%+v", c)
	cur := nextSession(vh.Margin(10 * time.Second))
	if cur == nil {
		res.Fail("harness-first-connect", "first session not established")
		return res
	}
	// for the record: every event the client emits from now on, with the goroutine that emitted it (the manager's
	// handler is wrapped, not replaced)
	var evLog []string
	if orig := cl.Handler; orig != nil {
		cl.Handler = func(e xmpp.Event) error {
			buf := make([]byte, 64)
			buf = buf[:runtime.Stack(buf, false)]
			gid := strings.Fields(strings.TrimPrefix(string(buf), "goroutine "))
			mu.Lock()
			evLog = append(evLog, fmt.Sprintf("+%v state=%d g%s", time.Since(t00).Round(time.Millisecond), xmpp.VerifEventState(e), firstOr(gid, "?")))
			mu.Unlock()
			return orig(e)
		}
	}
	expectPost := 1
	msgN := 0
	resumable := c.SM
	// verify the session works in both directions
	exercise := func(s *c13Session, n int, label string) bool {
		for i := 0; i < n+1; i++ {
			msgN++
			id := fmt.Sprintf("in-%d", msgN)
			s.pc.Send(inboundStanza("m", id, 0))
			ok := waitFor(vh.Margin(5*time.Second), func() bool {
				_, _, routed := rec.snapshot()
				for _, p := range routed {
					if _, pid := packetID(p); pid == id {
						return true
					}
				}
				return false
			})
			if !ok {
				res.Fail("t/not-receiving:"+label, "%s: a stanza sent by the server on the %s session was not routed", desc, label)
				return false
			}
			oid := fmt.Sprintf("out-%d", msgN)
			m := stanza.NewMessage(stanza.Attrs{To: "a@localhost", Id: oid})
			m.Body = "x"
			if err := cl.Send(m); err != nil {
				res.Fail("send-fails:"+label, "%s: Send on the %s session failed: %v", desc, label, err)
				return false
			}
			deadline := time.After(vh.Margin(5 * time.Second))
			got := false
			for !got {
				select {
				case ev := <-s.recvd:
					if ev.Attr["id"] == oid {
						got = true
					}
				case <-deadline:
					res.Fail("t/not-sending:"+label, "%s: a stanza sent by the application on the %s session did not reach the server", desc, label)
					return false
				}
			}
		}
		return true
	}
	if !exercise(cur, 0, "first") {
		return res
	}
	for li, l := range c.Losses {
		last := li == len(c.Losses)-1
		if !exercise(cur, l.After, "current") {
			return res
		}
		// plan the behaviour of the next connections
		mu.Lock()
		plan = append([]string(nil), l.Fails...)
		final := "ok-bind"
		if l.Resume && c.SM {
			final = "ok-resume"
		}
		if last && c.Permanent != "" {
			final = c.Permanent
		}
		plan = append(plan, final)
		acceptedBefore := accepted
		evMark := len(evLog)
		mu.Unlock()
		// attemptsLost: connection attempts the client has made since this loss (Resuming events) that never reached
		// the listening server. A few are expected while the server is down; many mean that the dials themselves fail
		// (a machine short of ephemeral ports, or under extreme connection churn), after which the library's exponential
		// back-off sleeps for minutes: the environment's doing, not the manager's.
		attemptsLost := func() (lost, made int) {
			mu.Lock()
			defer mu.Unlock()
			for _, e := range evLog[evMark:] {
				if strings.Contains(e, "state=1 ") {
					made++
				}
			}
			return made - (accepted - acceptedBefore), made
		}
		if l.DownMs > 0 {
			mu.Lock()
			servers[len(servers)-1].StopListening()
			connLog = append(connLog, fmt.Sprintf("(stopped listening at +%v)", time.Since(t00).Round(time.Millisecond)))
			mu.Unlock()
		}
		switch l.End {
		case "reset":
			cur.pc.Reset()
		case "close":
			cur.pc.CloseSoon(200 * time.Millisecond)
		case "streamclose":
			cur.pc.Send("</stream:stream>")
			cur.pc.CloseSoon(200 * time.Millisecond)
		case "streamerror":
			// the server ends the stream with a (non-conflict) stream error, as RFC 6120 4.9 prescribes, then closes
			cur.pc.Send("<stream:error><system-shutdown xmlns='urn:ietf:params:xml:ns:xmpp-streams'/></stream:error></stream:stream>")
			cur.pc.CloseSoon(200 * time.Millisecond)
		}
		if last && c.StopWhileDown {
			// the reconnection loop is running against a server that refuses connections: Stop must still end Run
			time.Sleep(40 * time.Millisecond)
			go sm.Stop()
			select {
			case <-runDone:
			case <-time.After(vh.Margin(8 * time.Second)):
				res.Fail("t/run-does-not-return", "%s: Stop was called while the manager was reconnecting (server down); Run did not return within the margin", desc)
			}
			res.NonTrivial = true
			res.Label("stop-while-reconnecting")
			return res
		}
		if l.DownMs > 0 {
			time.Sleep(time.Duration(l.DownMs) * time.Millisecond)
			ns, err := peer.ListenAt(addr, handler)
			if err != nil {
				res.Fail("harness", "re-listen: %v", err)
				return res
			}
			mu.Lock()
			servers = append(servers, ns)
			connLog = append(connLog, fmt.Sprintf("(listening again on %s at +%v)", ns.Addr, time.Since(t00).Round(time.Millisecond)))
			mu.Unlock()
		}
		label := fmt.Sprintf("loss %d (%s, down %d ms, failing attempts %v)", li, l.End, l.DownMs, l.Fails)
		if last && c.Permanent != "" {
			// the rejected attempt must be the last one
			waitFor(vh.Margin(5*time.Second), func() bool { mu.Lock(); defer mu.Unlock(); return accepted >= acceptedBefore+len(l.Fails)+1 })
			mu.Lock()
			got := accepted - acceptedBefore
			mu.Unlock()
			if got < len(l.Fails)+1 {
				var sb strings.Builder
				for _, st := range libGoroutines() {
					sb.WriteString(trunc(st, 900))
					sb.WriteString("\n---\n")
				}
				mu.Lock()
				ev := strings.Join(evLog, "; ")
				cl2 := strings.Join(connLog, "; ")
				mu.Unlock()
				if nc, derr := net.DialTimeout("tcp", addr, time.Second); derr != nil {
					cl2 += fmt.Sprintf(" | harness dial of %s: %v", addr, derr)
				} else {
					cl2 += fmt.Sprintf(" | harness dial of %s: ok", addr)
					nc.Close()
				}
				_, errs, _ := rec.snapshot()
				cl2 += fmt.Sprintf(" | error callbacks: %v", errs)
				// Several attempts were made (Resuming events) and none reached the listener: the dials themselves failed.
				// On a machine that is short of ephemeral ports or under extreme connection churn that is the environment
				// (the library's exponential back-off then sleeps for minutes), not a decision of the manager: inconclusive.
				mu.Lock()
				resuming := 0
				for _, e := range evLog {
					if strings.Contains(e, "state=1 ") {
						resuming++
					}
				}
				mu.Unlock()
				if lost, made := attemptsLost(); lost >= 10 || (got == 0 && resuming >= 5) {
					res.Fail("harness-dials-never-arrived", "%s: after %s the client made %d attempts, %d of which never reached the listening server; connections: %s | events: %s", desc, label, made, lost, cl2, ev)
					return res
				}
				res.Fail("t/no-reconnection:"+l.End, "%s: after %s only %d of the expected %d reconnection attempts were made; connections: %s | events: %s | library goroutines:\n%s", desc, label, got, len(l.Fails)+1, cl2, ev, sb.String())
				return res
			}
			time.Sleep(vh.Margin(600 * time.Millisecond))
			mu.Lock()
			got = accepted - acceptedBefore
			delivered := false
			for _, ci := range conns[acceptedBefore:] {
				if ci.what == c.Permanent {
					for _, st := range ci.steps {
						if st == "auth" {
							delivered = true
						}
					}
				}
			}
			mu.Unlock()
			if !delivered {
				// The connection that was to be refused for good never got as far as <auth/> (the attempt broke off
				// earlier, for whatever reason): the permanent error was never given, so nothing follows from what
				// the manager did next. Counted, not judged.
				res.Excluded = true
				res.Label("permanent-error-not-delivered")
				break
			}
			if got > len(l.Fails)+1 {
				time.Sleep(300 * time.Millisecond) // let the extra connection get as far as it gets, for the record
				mu.Lock()
				log := strings.Join(connLog, "; ")
				mu.Unlock()
				mu.Lock()
				log += " | events: " + strings.Join(evLog, "; ")
				mu.Unlock()
				res.Fail("t/retry-after-permanent-error", "%s: credentials were rejected (permanent error) but %d further connection attempts followed; connections: %s", desc, got-len(l.Fails)-1, log)
			}
			if s := nextSession(10 * time.Millisecond); s != nil {
				res.Fail("t/session-after-permanent-error", "%s: a session was established after the permanent error", desc)
			}
			break
		}
		ns := nextSession(vh.Margin(8*time.Second) + time.Duration(l.DownMs)*time.Millisecond)
		if ns == nil {
			mu.Lock()
			got := accepted - acceptedBefore
			mu.Unlock()
			if lost, made := attemptsLost(); lost >= 10 {
				mu.Lock()
				log := strings.Join(connLog, "; ") + " | events: " + strings.Join(evLog, "; ")
				mu.Unlock()
				if nc, derr := net.DialTimeout("tcp", addr, time.Second); derr != nil {
					log += fmt.Sprintf(" | harness dial of %s: %v", addr, derr)
				} else {
					log += fmt.Sprintf(" | harness dial of %s: ok (local %s)", addr, nc.LocalAddr())
					nc.Close()
				}
				_, errs, _ := rec.snapshot()
				log += fmt.Sprintf(" | error callbacks: %v", errs)
				log += fmt.Sprintf(" | a Resume() by the harness now: %v", cl.Resume())
				res.Fail("harness-dials-never-arrived", "%s: after %s the client made %d attempts, %d of which never reached the listening server; connections: %s", desc, label, made, lost, log)
				return res
			}
			mu.Lock()
			log := strings.Join(connLog, "; ") + " | events: " + strings.Join(evLog, "; ")
			mu.Unlock()
			res.Fail("t/no-reconnection:"+l.End, "%s: after %s no new session was established (%d connection attempts reached the server); connections: %s", desc, label, got, log)
			return res
		}
		expectPost++
		// a failing attempt that was cut at the resume step makes the client drop its resumable state (see C11)
		cutAtResume := false
		for _, f := range l.Fails {
			if f == "cut-bind" {
				cutAtResume = true
			}
		}
		if final == "ok-resume" && !ns.resumed && !cutAtResume && resumable {
			res.Fail("t/not-resumed", "%s: after %s the server offered resumption but the client bound a fresh session", desc, label)
		}
		cur = ns
		resumable = c.SM // the new session (resumed, or freshly bound with SM enabled again) is resumable again
		if !exercise(cur, 0, "re-established") {
			return res
		}
		// exactly one: no further connection shows up
		time.Sleep(vh.Margin(120 * time.Millisecond))
		mu.Lock()
		got := accepted - acceptedBefore
		mu.Unlock()
		mu.Lock()
		sessionsNow := 0
		for _, ci := range conns[acceptedBefore:] {
			if ci.established {
				sessionsNow++
			}
		}
		mu.Unlock()
		if got != len(l.Fails)+1 && sessionsNow == 1 {
			// further attempts that never became a session (an attempt that broke off for reasons outside the script,
			// and its repetition): the statement counts sessions, of which there is one. Recorded in the evidence.
			res.Label("attempts-beyond-the-script")
		} else if got != len(l.Fails)+1 {
			mu.Lock()
			log := strings.Join(connLog, "; ")
			mu.Unlock()
			mu.Lock()
			log += " | events: " + strings.Join(evLog, "; ")
			mu.Unlock()
			_, errs, _ := rec.snapshot()
			log += fmt.Sprintf(" | error callbacks: %v", errs)
			res.Fail("t/extra-connections", "%s: after %s %d connections reached the server, expected %d failing attempts and one session; connections: %s", desc, label, got, len(l.Fails), log)
		}
		if s := nextSession(time.Millisecond); s != nil {
			res.Fail("t/two-sessions", "%s: after %s a second session was established", desc, label)
		}
	}
	if c.KeepaliveMs > 0 && c.Permanent == "" && len(res.Violations) == 0 {
		// With keepalives falling into the losses, a keepalive of an ended session may have been on its way to close
		// the transport when the session ended; Transport.Close waits up to ConnectTimeout (1 s here) before it closes.
		// The last session must outlive that: nothing left over from its predecessors may end it.
		res.Label("held-past-close-timeout")
		mu.Lock()
		before := accepted
		mu.Unlock()
		time.Sleep(1300 * time.Millisecond)
		mu.Lock()
		after := accepted
		mu.Unlock()
		if after != before {
			res.Fail("t/session-ended-by-predecessor", "%s: the last session was left alone for 1.3 s, yet %d more connections reached the server (the client gave the session up on its own)", desc, after-before)
		} else if !exercise(cur, 0, "held") {
			return res
		}
	}
	pcMu.Lock()
	gotPost := postConnects
	pcMu.Unlock()
	if gotPost != expectPost {
		res.Fail("t/postconnect-count", "%s: PostConnect ran %d times for %d sessions", desc, gotPost, expectPost)
	}
	// Stop makes Run return
	stopped := make(chan struct{})
	go func() { sm.Stop(); close(stopped) }()
	select {
	case <-runDone:
	case <-time.After(vh.Margin(8 * time.Second)):
		res.Fail("t/run-does-not-return", "%s: Run did not return within the margin after Stop", desc)
	}
	res.NonTrivial = len(c.Losses) >= 1
	for _, l := range c.Losses {
		res.Label("end-" + l.End)
		if l.DownMs > 0 {
			res.Label("server-down")
		}
		if len(l.Fails) > 0 {
			res.Label("failing-attempts")
		}
	}
	if c.Permanent != "" {
		res.Label("permanent-error")
	}
	return res
}

var c13 = vh.Define(&vh.Def[c13Case]{
	Property: "C13", Name: "streammanager",
	Rule: "fault sequences of 1-3 losses on successive connections of a Client under StreamManager.Run (keepalive interval 2-40 ms in a third of the sequences, so that keepalives fall into the time spent reconnecting; 30 s otherwise, and with the short interval the last session is held for 1.3 s - longer than Transport.Close waits - and must still be the same and working; every connection over STARTTLS with the client insisting on it in a third): each loss = how the established connection ends (TCP reset, graceful TCP close, </stream:stream> from the server, a system-shutdown stream error followed by the stream end) after 0-3 stanzas in each direction x the server refusing connections for 0 or 10-150 ms (listener closed, later reopened on the same port) x 0-3 reconnection attempts that fail during negotiation (connection cut at stream open / auth / bind) x resumption confirmed or refused; optionally the last reconnection is rejected with a SASL failure (permanent), or Stop is called while the manager is still reconnecting against a server that is down; oracle on the peer's accept log and sessions: after each loss exactly one further session is established (resumed when the server confirms), exactly failing-attempts+1 connections reach the server, the new session receives and sends, PostConnect ran once per session, after the permanent error no further attempt is made within 600 ms, Stop makes Run return; sessions are counted, not attempts: attempts beyond the script that never became a session are a label, and a permanent error is only asserted when the refusing connection got as far as <auth/>; verdicts about how many sessions / attempts there were depend on schedules the harness does not own and are confirmed by one re-run of the same case (unconfirmed ones are counted as timing_retry_passed); non-trivial = at least one loss after establishment",
	Quick: 64, Thorough: 2500, Journal: true,
	Gen: genC13, Run: runC13,
})

func TestC13_streammanager(t *testing.T) { c13.Check(t) }
func TestC13_Regress(t *testing.T)       { vh.Regress(t, "C13") }
