package harness

// C05 — every inbound stanza reaches the router exactly once (client over TCP
// and WebSocket, component over TCP), acknowledgement requests are answered,
// nothing completely received before a loss is dropped.

import (
	"sync"
	"fmt"
	"sort"
	"strings"
	"testing"
	"time"

	xmpp "gosrc.io/xmpp"
	"gosrc.io/xmpp/stanza"
	"pgregory.net/rapid"
	"verifharness/peer"
	"verifharness/vh"
)

type c05Item struct {
	Kind string `json:"k"`
	Size int    `json:"size,omitempty"`
}

type c05Case struct {
	Entity    string    `json:"entity"`    // client component
	Transport string    `json:"transport"` // tcp ws
	SM        string    `json:"sm"`        // on not-offered off
	Items     []c05Item `json:"items"`
	Chunks    []int     `json:"chunks,omitempty"`
	End       string    `json:"end"` // open close halfclose
	// Glued (TCP): the whole feed leaves the server in the same write as the last reply of the negotiation (bind result,
	// <enabled/>, component <handshake/>), so it is already buffered on the client side when the receive loop starts
	Glued bool `json:"glued,omitempty"`
	// Block (client over TCP): the application's handler of the first stanza does not return until everything else has
	// been seen: the other stanzas must be routed all the same ("concurrently for a client"), a route registered
	// meanwhile must not get in the way, and a stanza arriving then is routed too
	Block bool `json:"block,omitempty"`
}

var c05Kinds = []string{"m", "m", "m", "p", "p", "iq-result", "iq-error", "iq-get", "iq-set", "r", "r", "a", "a0", "features", "enabled", "success"}

func genC05(t *rapid.T) c05Case {
	var c c05Case
	c.Entity = rapid.SampledFrom([]string{"client", "client", "client", "component"}).Draw(t, "entity")
	c.Transport = "tcp"
	if c.Entity == "client" && rapid.IntRange(0, 2).Draw(t, "ws") == 0 {
		c.Transport = "ws"
	}
	c.SM = "off"
	if c.Entity == "client" {
		c.SM = rapid.SampledFrom([]string{"on", "on", "not-offered", "off"}).Draw(t, "sm")
	}
	n := rapid.IntRange(0, 40).Draw(t, "n")
	for i := 0; i < n; i++ {
		it := c05Item{Kind: rapid.SampledFrom(c05Kinds).Draw(t, "kind")}
		if c.Entity == "component" && (it.Kind == "r" || it.Kind == "a" || it.Kind == "a0") && rapid.Bool().Draw(t, "dropSM") {
			it.Kind = "m"
		}
		if isStanzaItem(it.Kind) {
			switch rapid.IntRange(0, 9).Draw(t, "sizeClass") {
			case 0:
				it.Size = rapid.IntRange(4000, 30000).Draw(t, "size")
			case 1:
				it.Size = rapid.IntRange(100, 4000).Draw(t, "size")
			}
		}
		c.Items = append(c.Items, it)
	}
	if rapid.Bool().Draw(t, "chunked") {
		k := rapid.IntRange(1, 3).Draw(t, "nchunks")
		for i := 0; i < k; i++ {
			switch rapid.IntRange(0, 2).Draw(t, "chunkClass") {
			case 0:
				c.Chunks = append(c.Chunks, rapid.IntRange(1, 8).Draw(t, "chunk"))
			case 1:
				c.Chunks = append(c.Chunks, rapid.IntRange(8, 600).Draw(t, "chunk"))
			default:
				c.Chunks = append(c.Chunks, rapid.IntRange(600, 9000).Draw(t, "chunk"))
			}
		}
	}
	c.End = rapid.SampledFrom([]string{"open", "open", "close", "halfclose", "streamerror"}).Draw(t, "end")
	if c.Entity == "client" && c.Transport == "tcp" && rapid.IntRange(0, 3).Draw(t, "block") == 0 {
		c.Block = true
	}
	if c.Transport == "tcp" && rapid.IntRange(0, 4).Draw(t, "glued") == 0 {
		c.Glued = true
		c.Chunks = nil
	}
	return c
}

func c05ItemXML(it c05Item, id string, ws bool) string {
	var s string
	switch {
	case isStanzaItem(it.Kind):
		s = inboundStanza(it.Kind, id, it.Size)
	case it.Kind == "a0":
		s = "<a xmlns='urn:xmpp:sm:3' h='0'/>"
	default:
		s = nonzaXML(it.Kind)
	}
	if ws {
		switch {
		case strings.HasPrefix(s, "<message"), strings.HasPrefix(s, "<presence"), strings.HasPrefix(s, "<iq"):
			i := strings.IndexAny(s, " >")
			s = s[:i] + " xmlns='jabber:client'" + s[i:]
		case strings.HasPrefix(s, "<stream:features"):
			s = strings.Replace(s, "<stream:features", "<stream:features xmlns:stream='"+peer.NSStream+"'", 1)
		}
	}
	return s
}

func runC05(c c05Case) vh.Result {
	var res vh.Result
	res.Label(c.Entity + "-" + c.Transport + "-sm-" + c.SM)
	var wantIDs []string
	nR, nA := 0, 0
	big, nonStanza := false, false
	for i, it := range c.Items {
		if isStanzaItem(it.Kind) {
			wantIDs = append(wantIDs, fmt.Sprintf("s%d", i))
			if it.Size > 4000 {
				big = true
			}
		} else {
			nonStanza = true
			if it.Kind == "r" {
				nR++
			}
			if it.Kind == "a" || it.Kind == "a0" {
				nA++
			}
		}
	}
	res.NonTrivial = len(wantIDs) >= 3 && (nonStanza || big || c.End != "open")
	if big {
		res.Label("stanza>4KB")
	}
	if len(c.Chunks) > 0 {
		res.Label("segmented")
	}

	type peerObs struct {
		established bool
		answers     int
		note        string
	}
	obsc := make(chan peerObs, 1)
	failc := make(chan peerObs, 1)
	fedc := make(chan struct{})
	script := &peer.Script{Mechs: []string{"PLAIN"}, OfferSM: c.SM == "on", ExpectEnable: c.SM == "on", SMId: "sm-c05"}
	var feed strings.Builder
	for i, it := range c.Items {
		feed.WriteString(c05ItemXML(it, fmt.Sprintf("s%d", i), false))
	}
	block := c.Block && c.Entity == "client" && c.Transport == "tcp" && len(wantIDs) > 0
	sendExtra, extraDone, release := make(chan struct{}), make(chan struct{}), make(chan struct{})
	var releaseOnce sync.Once
	doRelease := func() { releaseOnce.Do(func() { close(release) }) }
	defer doRelease() // whatever happens, the parked handler goes away with the case
	glued := c.Glued && c.Transport == "tcp"
	if glued {
		res.Label("feed-glued-to-last-negotiation-reply")
		last := "bind"
		if c.SM == "on" {
			last = "enable"
		}
		script.Glue = map[string]string{last: feed.String()}
	}

	rec := newRecorder()
	var disconnect func()
	var connectErr error
	var blockedRouter *xmpp.Router
	countAnswers := func(evs []peer.Event) int {
		n := 0
		for _, e := range evs {
			if e.Dir == "recv" && e.Kind == "elem" && e.Name.Local == "a" && e.Name.Space == peer.NSSM {
				n++
			}
		}
		return n
	}

	switch {
	case c.Transport == "ws":
		srv, err := peer.ListenWS("xmpp", func(wc *peer.WSConn) {
			o := peerObs{}
			out := wc.WSNegotiate(script, peer10s())
			o.established = out.Established
			o.note = fmt.Sprint(out.Steps)
			if !out.Established {
				failc <- o
				return
			}
			for i, it := range c.Items {
				wc.SendFragments(c05ItemXML(it, fmt.Sprintf("s%d", i), true), c.Chunks)
			}
			close(fedc)
			// collect answers until told to stop
			// (a context time-out on a WebSocket read closes the connection abruptly, so only long time-outs are used)
			for countAnswers(wc.Transcript()) < nR {
				if ev := wc.Recv(vh.Margin(8 * time.Second)); ev.Kind == "eof" || ev.Kind == "timeout" {
					break
				}
			}
			if c.End == "streamerror" {
				wc.Send("<stream:error xmlns:stream='" + peer.NSStream + "'><system-shutdown xmlns='urn:ietf:params:xml:ns:xmpp-streams'/></stream:error>")
			}
			o.answers = countAnswers(wc.Transcript())
			obsc <- o
			if c.End != "open" {
				// loss at TCP level (FIN): everything written before it is still delivered to the client
				wc.DropTCP(3 * time.Second)
				return
			}
			if c.End == "open" {
				for {
					if ev := wc.Recv(10 * time.Second); ev.Kind == "eof" || ev.Kind == "timeout" || ev.Kind == "close" {
						return
					}
				}
			}
		})
		if err != nil {
			res.Fail("harness", "listen: %v", err)
			return res
		}
		defer srv.Close()
		cl, r2, _, err := newTestClientCfg(srv.URL, clientOpt{Insecure: true, SM: c.SM != "off"})
		if err != nil {
			res.Fail("harness", "NewClient: %v", err)
			return res
		}
		rec = r2
		connectErr = cl.Connect()
		disconnect = func() { go func() { _ = cl.Disconnect() }() }
	default:
		srv, err := peer.Listen(func(pc *peer.Conn) {
			o := peerObs{}
			if c.Entity == "component" {
				ev := pc.ExpectOpen(10 * time.Second)
				if ev.Kind != "open" {
					failc <- o
					return
				}
				pc.Send("<?xml version='1.0'?><stream:stream xmlns='jabber:component:accept' xmlns:stream='http://etherx.jabber.org/streams' from='comp.localhost' id='sid'>")
				if ev = pc.NextElem(10 * time.Second); ev.Kind != "elem" {
					failc <- o
					return
				}
				if glued {
					pc.Send("<handshake/>" + feed.String())
				} else {
					pc.Send("<handshake/>")
				}
				o.established = true
			} else {
				out := pc.Negotiate(script, 10*time.Second)
				o.established = out.Established
				if !out.Established {
					o.note = fmt.Sprint(out.Steps)
					failc <- o
					return
				}
			}
			if !glued {
				pc.SendChunks(feed.String(), c.Chunks)
			}
			close(fedc)
			if block {
				select {
				case <-sendExtra:
					pc.Send(inboundStanza("m", "late-1", 0))
					select {
					case <-extraDone:
					case <-time.After(30 * time.Second):
					}
				case <-time.After(30 * time.Second):
				}
			}
			deadline := time.Now().Add(vh.Margin(1500 * time.Millisecond))
			for countAnswers(pc.Transcript()) < nR && time.Now().Before(deadline) && c.Entity == "client" {
				if ev := pc.Next(time.Until(deadline)); ev.Kind == "eof" || ev.Kind == "error" {
					break
				}
			}
			switch c.End {
			case "streamerror":
				// the server ends the stream with a stream error; everything sent before it must still be routed
				pc.Send("<stream:error><system-shutdown xmlns='urn:ietf:params:xml:ns:xmpp-streams'/></stream:error></stream:stream>")
				o.answers = countAnswers(pc.Transcript())
				obsc <- o
				pc.GracefulClose(3 * time.Second)
				return
			case "close":
				o.answers = countAnswers(pc.Transcript())
				obsc <- o
				pc.GracefulClose(3 * time.Second)
				return
			case "halfclose":
				pc.HalfClose()
			}
			o.answers = countAnswers(pc.Transcript())
			obsc <- o
			pc.AfterFault(10 * time.Second)
		})
		if err != nil {
			res.Fail("harness", "listen: %v", err)
			return res
		}
		defer srv.Close()
		if c.Entity == "component" {
			router := xmpp.NewRouter()
			router.NewRoute().HandlerFunc(rec.onPacket)
			comp, err := xmpp.NewComponent(xmpp.ComponentOptions{
				TransportConfiguration: xmpp.TransportConfiguration{Address: srv.Addr, Domain: "comp.localhost", ConnectTimeout: 1},
				Domain:                 "comp.localhost", Secret: "s"}, router, rec.onError)
			if err != nil {
				res.Fail("harness", "NewComponent: %v", err)
				return res
			}
			comp.SetHandler(rec.onEvent)
			connectErr = comp.Connect()
			disconnect = func() { go func() { _ = comp.Disconnect() }() }
		} else {
			cl, r2, _, err := newTestClientCfg(srv.Addr, clientOpt{Insecure: true, SM: c.SM != "off"})
			if err != nil {
				res.Fail("harness", "NewClient: %v", err)
				return res
			}
			rec = r2
			if block {
				res.Label("first-handler-blocks")
				blockID := wantIDs[0]
				rec.mu.Lock()
				rec.hook = func(p stanza.Packet) {
					if _, id := packetID(p); id == blockID {
						<-release
					}
				}
				rec.mu.Unlock()
				blockedRouter = xmpp.VerifRouter(cl)
			}
			connectErr = cl.Connect()
			disconnect = func() { go func() { _ = cl.Disconnect() }() }
		}
	}
	defer disconnect()
	if connectErr != nil {
		// Connect also reports a failed write of the initial presence: when the peer ends the connection right
		// after a short feed that can happen although the session was established and the receive loop runs.
		select {
		case <-fedc:
			if rec.count(xmpp.StateSessionEstablished) == 0 {
				// The session was never announced: from the client's side the connection was lost during negotiation
				// (on a loaded machine the server can answer the last request, feed and drop the connection before the
				// client's last write has returned). The statement starts "after a session is established".
				res.Excluded = true
				res.Label("lost-before-the-client-was-established")
				return res
			}
			res.Label("connect-error-after-establishment")
		case <-time.After(2 * time.Second):
			res.Fail("harness-connect", "Connect failed: %v", connectErr)
			return res
		}
	}
	select {
	case <-fedc:
	case o := <-failc:
		res.Fail("harness-not-established", "session not established: %+v", o)
		return res
	case <-time.After(20 * time.Second):
		res.Fail("harness", "peer did not finish feeding")
		return res
	}
	// quiescence: wait until everything expected was routed (bounded), then settle briefly to catch duplicates
	routedIDs := func() []string {
		_, _, routed := rec.snapshot()
		var ids []string
		for _, p := range routed {
			if k, id := packetID(p); k != "" {
				ids = append(ids, id)
			}
		}
		return ids
	}
	waitFor(vh.Margin(5*time.Second), func() bool { return len(routedIDs()) >= len(wantIDs) })
	if block {
		// the first handler is still busy: register a route (as an application may at any time) and let one more
		// stanza arrive; both must go through without waiting for that handler
		routeAdded := make(chan struct{})
		go func() {
			blockedRouter.NewRoute().Packet("never-matches").HandlerFunc(func(xmpp.Sender, stanza.Packet) {})
			close(routeAdded)
		}()
		select {
		case <-routeAdded:
		case <-time.After(vh.Margin(3 * time.Second)):
			res.Fail("t/newroute-blocked-by-handler", "client/tcp: Router.NewRoute did not return while the handler of %s was still running", wantIDs[0])
		}
		close(sendExtra)
		wantIDs = append(wantIDs, "late-1")
		if !waitFor(vh.Margin(4*time.Second), func() bool {
			for _, id := range routedIDs() {
				if id == "late-1" {
					return true
				}
			}
			return false
		}) {
			res.Fail("t/stanza-waits-for-busy-handler", "client/tcp sm=%s: while the handler of %s had not returned, %d of %d stanzas were routed and a stanza arriving then was not", c.SM, wantIDs[0], len(routedIDs()), len(wantIDs))
		}
		doRelease()
		close(extraDone)
	}
	time.Sleep(vh.Margin(15 * time.Millisecond))
	got := routedIDs()
	var o peerObs
	select {
	case o = <-obsc:
	case <-time.After(vh.Margin(10 * time.Second)):
		res.Fail("harness", "peer did not report")
		return res
	}
	// exactly once
	count := map[string]int{}
	for _, id := range got {
		count[id]++
	}
	var missing, dup, foreign []string
	for _, id := range wantIDs {
		switch {
		case count[id] == 0:
			missing = append(missing, id)
		case count[id] > 1:
			dup = append(dup, id)
		}
		delete(count, id)
	}
	for id := range count {
		foreign = append(foreign, id)
	}
	sort.Strings(foreign)
	desc := fmt.Sprintf("%s/%s sm=%s end=%s chunks=%v", c.Entity, c.Transport, c.SM, c.End, c.Chunks)
	if len(missing) > 0 {
		key := "t/stanza-not-routed"
		if c.Transport == "ws" && len(c.Chunks) > 0 {
			key = "t/stanza-not-routed:ws-fragmented"
		}
		states, errs, _ := rec.snapshot()
		res.Fail(key, "%s: %d of %d stanzas sent by the server were never routed (first missing %s); client errors: %v; Connect returned %v; states %v; negotiation seen by the server %s", desc, len(missing), len(wantIDs), missing[0], errs, connectErr, states, o.note)
	}
	if len(dup) > 0 {
		res.Fail("stanza-routed-twice", "%s: stanzas routed more than once: %v", desc, dup)
	}
	if len(foreign) > 0 {
		res.Fail("foreign-stanza-routed", "%s: routed stanzas the server never sent: %v", desc, foreign)
	}
	if c.Entity == "component" && len(missing) == 0 && len(dup) == 0 && len(foreign) == 0 {
		for i := range wantIDs {
			if got[i] != wantIDs[i] {
				res.Fail("component-order", "%s: component routed %v, arrival order %v", desc, got, wantIDs)
				break
			}
		}
	}
	if c.Entity == "client" && c.SM == "on" && len(missing) == 0 {
		if o.answers < nR {
			key := "t/r-not-answered"
			if c.Transport == "ws" && len(c.Chunks) > 0 {
				key += ":ws-fragmented"
			}
			res.Fail(key, "%s: server sent %d <r/>, client answered %d", desc, nR, o.answers)
		}
		if nA == 0 && o.answers > nR {
			res.Fail("extra-answers", "%s: server sent %d <r/>, client wrote %d <a/>", desc, nR, o.answers)
		}
	}
	_ = stanza.NSStream
	return res
}

func peer10s() time.Duration { return 10 * time.Second }

var c05 = vh.Define(&vh.Def[c05Case]{
	Property: "C05", Name: "inbound",
	Rule: "inbound histories of 0-40 top-level elements (message, presence, iq result/error/get/set with unique ids and sizes from empty to 30 KB, <r/>, <a/> with a huge and with a zero h, stream features, <enabled/>, SASL success) x {client over TCP, client over WebSocket, component over TCP} x stream management {negotiated, requested but not offered, off} x a segmentation (TCP write sizes 1-9000 / WebSocket continuation frames; or, over TCP, the whole feed in the same write as the last negotiation reply - bind result, <enabled/>, component <handshake/>) x ending {stay open, close, half-close, stream error}; for a quarter of the TCP clients the handler of the first stanza does not return until everything else has been routed, a route is registered meanwhile and one more stanza arrives; a catch-all route records what is routed; oracle: after quiescence the multiset of routed ids equals the multiset sent (exactly once each, none foreign), components route in arrival order, with SM on every <r/> is answered (exactly once when the server sent no <a/>); the process must survive (the driver turns a process death into a violation with the journalled case); non-trivial = >= 3 stanzas and (a non-stanza element, a stanza > 4 KB, or a closing end)",
	Quick: 1200, Thorough: 40000, Journal: true,
	Gen: genC05, Run: runC05,
})

func TestC05_inbound(t *testing.T) { c05.Check(t) }
func TestC05_Regress(t *testing.T) { vh.Regress(t, "C05") }
