package harness

// C16 — component handshake digest is exact; success requires the server's
// <handshake/>.

import (
	"crypto/sha1"
	"encoding/hex"
	"fmt"
	"strings"
	"testing"
	"time"

	xmpp "gosrc.io/xmpp"
	"gosrc.io/xmpp/stanza"
	"pgregory.net/rapid"
	"verifharness/peer"
	"verifharness/vh"
)

type c16Case struct {
	StreamID string `json:"stream_id"`
	Secret   []byte `json:"secret"`
	Reply    string `json:"reply"` // handshake stream-error unexpected malformed close truncated
	Var      int    `json:"var"`
	// Prior: earlier connections of the same Component, each with its own stream id: "ok:<id>" = authenticated, then
	// the server closed the connection; "refused:<id>" = the server answered with a stream error
	Prior []string `json:"prior,omitempty"`
}

var c16StreamErrors = []string{"not-authorized", "host-unknown", "conflict", "invalid-namespace", "policy-violation", "internal-server-error", "system-shutdown", "bad-format"}
var c16Unexpected = []string{
	"<message from='a@b'><body>x</body></message>", "<iq type='result' id='1'/>", "<stream:features/>",
	"<success xmlns='urn:ietf:params:xml:ns:xmpp-sasl'/>", "<presence/>", "<a xmlns='urn:xmpp:sm:3' h='1'/>",
	"<handshake xmlns='jabber:client'/>", "<handshook/>",
}

func genC16(t *rapid.T) c16Case {
	var c c16Case
	switch rapid.IntRange(0, 4).Draw(t, "idClass") {
	case 0:
		c.StreamID = ""
	case 1:
		c.StreamID = rapid.StringMatching(`[a-f0-9]{8}-[a-f0-9]{4}`).Draw(t, "id")
	case 2:
		c.StreamID = rapid.SampledFrom([]string{"a&b", "<id>", "'quoted\"", "&amp;", "é🙂", " lead", "trail ", "a\nb", "a\tb", "]]>", "&#x41;"}).Draw(t, "idConst")
	default:
		c.StreamID = genText(t, "idText")
	}
	switch rapid.IntRange(0, 3).Draw(t, "secretClass") {
	case 0:
		c.Secret = []byte(rapid.StringMatching(`[a-zA-Z0-9]{0,12}`).Draw(t, "secret"))
	case 1:
		c.Secret = rapid.SliceOfN(rapid.Byte(), 0, 16).Draw(t, "secretBytes")
	default:
		c.Secret = []byte(genText(t, "secretText"))
	}
	c.Reply = rapid.SampledFrom([]string{"handshake", "handshake", "handshake", "stream-error", "unexpected", "malformed", "close", "truncated"}).Draw(t, "reply")
	c.Var = rapid.IntRange(0, 15).Draw(t, "var")
	if rapid.IntRange(0, 3).Draw(t, "reconnect") == 0 {
		k := rapid.IntRange(1, 2).Draw(t, "nprior")
		for i := 0; i < k; i++ {
			c.Prior = append(c.Prior, rapid.SampledFrom([]string{"ok", "ok", "refused"}).Draw(t, "priorKind")+":"+rapid.StringMatching(`[a-f0-9]{1,12}`).Draw(t, "priorID"))
		}
	}
	return c
}

func runC16(c c16Case) vh.Result {
	var res vh.Result
	res.Label("reply-" + c.Reply)
	type obs struct {
		handshake *peer.Event
		sawOther  []string
	}
	obsc := make(chan obs, 1)
	srv, err := peer.Listen(func(pc *peer.Conn) {
		if pc.Index < len(c.Prior) {
			kind, id, _ := strings.Cut(c.Prior[pc.Index], ":")
			if ev := pc.ExpectOpen(10 * time.Second); ev.Kind != "open" {
				return
			}
			pc.Send(fmt.Sprintf("<?xml version='1.0'?><stream:stream xmlns='jabber:component:accept' xmlns:stream='http://etherx.jabber.org/streams' from='comp.localhost' id='%s'>", id))
			if ev := pc.NextElem(10 * time.Second); ev.Kind != "elem" {
				return
			}
			if kind == "ok" {
				pc.Send("<handshake/>")
				time.Sleep(5 * time.Millisecond)
			} else {
				pc.Send("<stream:error><not-authorized xmlns='urn:ietf:params:xml:ns:xmpp-streams'/></stream:error></stream:stream>")
			}
			pc.GracefulClose(time.Second)
			return
		}
		var o obs
		defer func() { obsc <- o }()
		ev := pc.ExpectOpen(10 * time.Second)
		if ev.Kind != "open" {
			return
		}
		pc.Send(fmt.Sprintf("<?xml version='1.0'?><stream:stream xmlns='jabber:component:accept' xmlns:stream='http://etherx.jabber.org/streams' from='comp.localhost' id='%s'>", peer.XMLEsc(c.StreamID)))
		ev = pc.NextElem(10 * time.Second)
		if ev.Kind != "elem" {
			o.sawOther = append(o.sawOther, ev.Kind+":"+ev.Raw)
			return
		}
		cp := ev
		o.handshake = &cp
		switch c.Reply {
		case "handshake":
			switch c.Var % 3 {
			case 0:
				pc.Send("<handshake/>")
			case 1:
				pc.Send("<handshake></handshake>")
			default:
				pc.Send("\n <handshake xmlns='jabber:component:accept'/>")
			}
			pc.Send("<message from='a@localhost/r' to='comp.localhost' id='after-handshake'><body>ping</body></message>")
		case "stream-error":
			if (c.Var/len(c16StreamErrors))%2 == 0 {
				pc.Send("<stream:error><" + c16StreamErrors[c.Var%len(c16StreamErrors)] + " xmlns='urn:ietf:params:xml:ns:xmpp-streams'/></stream:error></stream:stream>")
			} else {
				// a server that refuses but keeps the stream open and goes on sending: nothing of it may be routed
				pc.Send("<stream:error><" + c16StreamErrors[c.Var%len(c16StreamErrors)] + " xmlns='urn:ietf:params:xml:ns:xmpp-streams'/></stream:error>")
				pc.Send("<message from='a@localhost/r' to='comp.localhost' id='after-handshake'><body>ping</body></message>")
			}
		case "unexpected":
			pc.Send(c16Unexpected[c.Var%len(c16Unexpected)])
			pc.Send("<message from='a@localhost/r' to='comp.localhost' id='after-handshake'><body>ping</body></message>")
		case "malformed":
			pc.Send([]string{"<<<", "<handshake></bogus>", "&&", "<handshake"}[c.Var%4])
			if c.Var%4 == 3 {
				pc.Close()
				return
			}
		case "truncated":
			pc.Send("<handshake")
			pc.Close()
			return
		case "close":
			pc.Close()
			return
		}
		pc.AfterFault(5 * time.Second)
	})
	if err != nil {
		res.Fail("harness", "listen: %v", err)
		return res
	}
	defer srv.Close()
	rec := newRecorder()
	router := xmpp.NewRouter()
	router.NewRoute().HandlerFunc(rec.onPacket)
	opts := xmpp.ComponentOptions{
		TransportConfiguration: xmpp.TransportConfiguration{Address: srv.Addr, Domain: "comp.localhost", ConnectTimeout: 1},
		Domain:                 "comp.localhost", Secret: string(c.Secret), Name: "verif", Category: "gateway", Type: "service",
	}
	comp, err := xmpp.NewComponent(opts, router, rec.onError)
	if err != nil {
		res.Fail("harness", "NewComponent: %v", err)
		return res
	}
	comp.SetHandler(rec.onEvent)
	for i, pr := range c.Prior {
		res.Label("reconnection")
		kind, _, _ := strings.Cut(pr, ":")
		err := comp.Connect()
		if kind == "ok" {
			if err != nil {
				res.Fail("harness-prior", "prior connection %d (%s) failed: %v", i, pr, err)
				return res
			}
			// the loss of that connection has been noticed
			if !waitFor(5*time.Second, func() bool { return xmpp.VerifState(&comp.EventManager) != xmpp.StateSessionEstablished }) {
				res.Fail("harness-prior", "prior connection %d: its end was not noticed", i)
				return res
			}
		} else if err == nil {
			res.Fail("harness-prior", "prior connection %d (%s) was refused but Connect returned nil", i, pr)
			return res
		}
	}
	t0 := time.Now()
	cerr := comp.Connect()
	el := time.Since(t0)
	routedAfter := func() bool {
		_, _, routed := rec.snapshot()
		for _, p := range routed {
			if m, ok := p.(stanza.Message); ok && m.Id == "after-handshake" {
				return true
			}
		}
		return false
	}
	established := func() bool { return xmpp.VerifState(&comp.EventManager) == xmpp.StateSessionEstablished }
	if c.Reply == "handshake" {
		waitFor(3*time.Second, routedAfter)
	} else {
		waitFor(60*time.Millisecond, routedAfter) // a wrongly started receive loop needs a moment to show
	}
	gotRouted, gotEstablished := routedAfter(), established()
	// Disconnect waits ConnectTimeout (>= 1 s) for the peer's stream end when nobody reads; do not wait for it
	go func() { _ = comp.Disconnect() }()
	var o obs
	select {
	case o = <-obsc:
	case <-time.After(12 * time.Second):
		res.Fail("harness", "peer did not finish")
		return res
	}
	sum := sha1.Sum(append([]byte(c.StreamID), c.Secret...))
	want := hex.EncodeToString(sum[:])
	needsEsc := strings.ContainsAny(c.StreamID+string(c.Secret), "<>&'\"") || !isASCII(c.StreamID)
	res.NonTrivial = needsEsc || c.Reply != "handshake"
	if needsEsc {
		res.Label("id-or-secret-needs-escaping")
	}
	if o.handshake == nil {
		res.Fail("no-handshake-sent", "component did not send a handshake element (saw %v); Connect error: %v", o.sawOther, cerr)
		return res
	}
	if o.handshake.Name.Local != "handshake" {
		res.Fail("not-a-handshake", "first element after the stream header is %s", o.handshake.Raw)
	} else if o.handshake.Inner != want {
		res.Fail("wrong-digest", "handshake digest %q, expected lower-case hex SHA-1(id+secret) %q (id %q)", o.handshake.Inner, want, c.StreamID)
	}
	if c.Reply == "handshake" {
		if cerr != nil {
			res.Fail("handshake-rejected", "server answered <handshake/> but Connect failed: %v", cerr)
		} else {
			if !gotEstablished {
				res.Fail("not-established-after-handshake", "Connect returned nil but the state is not SessionEstablished")
			}
			if !gotRouted {
				res.Fail("stanza-not-routed-after-handshake", "the stanza sent after <handshake/> was not routed within 3 s")
			}
		}
	} else {
		if cerr == nil {
			res.Fail("success-without-handshake", "server answered %s (variant %d), not <handshake/>, but Connect returned nil", c.Reply, c.Var)
		}
		if gotEstablished {
			res.Fail("established-without-handshake", "server answered %s (variant %d) but the state is SessionEstablished", c.Reply, c.Var)
		}
		if gotRouted {
			res.Fail("routed-without-handshake", "server answered %s (variant %d) but a later stanza was routed", c.Reply, c.Var)
		}
	}
	if el > 8*time.Second {
		res.Fail("connect-slow", "Connect took %v", el)
	}
	return res
}

func isASCII(s string) bool {
	for i := 0; i < len(s); i++ {
		if s[i] >= 0x80 {
			return false
		}
	}
	return true
}

var c16 = vh.Define(&vh.Def[c16Case]{
	Property: "C16", Name: "component",
	Rule: "stream ids over attribute-legal text (empty, uuid-like, entities, quotes, non-ASCII, astral, leading/trailing space, control white space sent as character references, all XML-legal text), secrets as arbitrary bytes, server reply drawn from <handshake/> (3 forms), every stream error condition (8; with the stream closed, or kept open and followed by a stanza), unexpected elements (8, incl. a handshake in the wrong namespace), malformed XML (4), truncated, closed; a real Component connects to the scripted peer, in a quarter of the cases after 1-2 earlier connections of the same Component (authenticated and lost, or refused), each with its own stream id; oracle: handshake text == lower-case hex SHA-1(id || secret) computed by the harness; Connect nil, state SessionEstablished and the following stanza routed iff the reply was <handshake/>; otherwise error, state not established, nothing routed; non-trivial = id or secret needs escaping / is non-ASCII, or the reply is not <handshake/>",
	Quick: 2000, Thorough: 24000, Journal: true,
	Gen: genC16, Run: runC16,
})

func TestC16_component(t *testing.T) { c16.Check(t) }
func TestC16_Regress(t *testing.T)   { vh.Regress(t, "C16") }
