package harness

// C04 — no credentials or stanzas without verified TLS unless insecure mode
// is requested. The space {client TLS settings} x {server STARTTLS behaviour}
// x {certificate} is small: enumerated completely in the thorough tier.

import (
	"strings"
	"fmt"
	"testing"
	"time"

	xmpp "gosrc.io/xmpp"
	"pgregory.net/rapid"
	"verifharness/peer"
	"verifharness/vh"
)

type c04Case struct {
	Insecure   bool   `json:"insecure"`
	TLSConf    string `json:"tls_conf"`    // nil ca skipverify
	ServerName string `json:"server_name"` // "", localhost, alt.example
	Offer      string `json:"offer"`       // none offered required
	Reply      string `json:"reply"`       // proceed failure unexpected malformed close
	Cert       string `json:"cert"`        // valid wronghost untrusted expired altname both
	Prior      bool   `json:"prior"`       // a first, good TLS connection was made and lost before
	Transport  string `json:"transport"`   // tcp ws
	// Sibling: "insecure" / "strict" = another Client was built before on the same *tls.Config with Insecure on / off
	Sibling string `json:"sibling,omitempty"`
	// WSScheme: ws only - the scheme as written in the address when it is not the lower-case "ws" (WS, Ws, wS). Such an
	// address is not promised to be a WebSocket address; whatever the library makes of it, the rule on clear text holds.
	WSScheme string `json:"ws_scheme,omitempty"`
}

var (
	c04TLSConfs = []string{"nil", "ca", "skipverify"}
	c04Names    = []string{"", "localhost", "alt.example"}
	c04Offers   = []string{"none", "offered", "required"}
	c04Replies  = []string{"proceed", "failure", "unexpected", "malformed", "close"}
	c04Certs    = []string{"valid", "wronghost", "untrusted", "expired", "altname", "both"}
)

func genC04(t *rapid.T) c04Case {
	c := c04Case{
		Insecure:   rapid.Bool().Draw(t, "insecure"),
		TLSConf:    rapid.SampledFrom(c04TLSConfs).Draw(t, "tlsconf"),
		ServerName: rapid.SampledFrom(c04Names).Draw(t, "servername"),
		Offer:      rapid.SampledFrom(c04Offers).Draw(t, "offer"),
		Reply:      rapid.SampledFrom([]string{"proceed", "proceed", "proceed", "failure", "unexpected", "malformed", "close"}).Draw(t, "reply"),
		Cert:       rapid.SampledFrom(c04Certs).Draw(t, "cert"),
		Prior:      rapid.IntRange(0, 3).Draw(t, "prior") == 0,
		Transport:  "tcp",
	}
	if rapid.IntRange(0, 9).Draw(t, "ws") == 0 {
		c.Transport = "ws"
		c.Prior = false
		c.WSScheme = rapid.SampledFrom([]string{"", "", "WS", "Ws", "wS"}).Draw(t, "wsScheme")
	}
	if c.TLSConf != "nil" && rapid.IntRange(0, 3).Draw(t, "sibling") == 0 {
		c.Sibling = rapid.SampledFrom([]string{"insecure", "strict"}).Draw(t, "siblingKind")
	}
	return c
}

// certValidFor: does the certificate chain to the test CA, is in its validity period and names host?
func c04CertValidFor(cert, host string) bool {
	switch cert {
	case "valid":
		return host == "localhost"
	case "altname":
		return host == "alt.example"
	case "both":
		return host == "localhost" || host == "alt.example"
	}
	return false // wronghost, untrusted, expired
}

func runC04(c c04Case) vh.Result {
	var res vh.Result
	res.Label("offer-" + c.Offer)
	res.Label("cert-" + c.Cert)
	res.NonTrivial = !c.Insecure || (c.Offer != "none" && c.Reply == "proceed")
	verifyDisabled := c.TLSConf == "skipverify"
	trusted := c.TLSConf == "ca"
	// the certificate validates for the configured domain (and for the ServerName override used in the handshake)
	name := c.ServerName
	if name == "" {
		name = "localhost"
	}
	certOK := verifyDisabled || (trusted && c04CertValidFor(c.Cert, "localhost") && c04CertValidFor(c.Cert, name))
	certInvalidForDomain := !verifyDisabled && !(trusted && c04CertValidFor(c.Cert, "localhost"))
	tlsPossible := c.Offer != "none" && c.Reply == "proceed"
	expectSuccess := (tlsPossible && certOK) || (c.Offer == "none" && c.Insecure)
	if c.Transport == "ws" {
		expectSuccess = c.Insecure && c.WSScheme == ""
	}
	if expectSuccess && tlsPossible {
		res.Label("expect-auth-inside-tls")
	}

	type obs struct {
		out *peer.Outcome
		tr  []peer.Event
	}
	obsc := make(chan obs, 4)
	script := &peer.Script{Mechs: []string{"PLAIN"}, OfferTLS: c.Offer != "none", TLSRequired: c.Offer == "required", Cert: c.Cert,
		AfterFault: "<iq type='get' id='c04-probe' from='localhost'><query xmlns='jabber:iq:version'/></iq><message from='a@localhost/r' id='c04-msg' type='chat'><body>still in the clear</body></message>"}
	switch c.Reply {
	case "failure", "unexpected", "malformed", "close":
		script.Dev = map[string]peer.Dev{"starttls": {Kind: c.Reply, Variant: 3}}
	}
	prior := &peer.Script{Mechs: []string{"PLAIN"}, OfferTLS: true, Cert: "both"}
	var addr string
	opt := clientOpt{Insecure: c.Insecure, ServerName: c.ServerName, Sibling: c.Sibling, Echo: true}
	if c.Sibling != "" {
		res.Label("tls-config-shared-with-another-client")
	}
	switch c.TLSConf {
	case "nil":
		opt.NoTLSConfig = true
	case "skipverify":
		opt.SkipVerify = true
	}
	if c.Transport == "ws" {
		srv, err := peer.ListenWS("xmpp", func(wc *peer.WSConn) {
			o := wc.WSNegotiate(script, 10*time.Second)
			obsc <- obs{out: o, tr: wc.Transcript()}
			if o.Established {
				for {
					if ev := wc.Recv(5 * time.Second); ev.Kind == "eof" || ev.Kind == "timeout" || ev.Kind == "close" {
						return
					}
				}
			}
		})
		if err != nil {
			res.Fail("harness", "listen: %v", err)
			return res
		}
		defer srv.Close()
		addr = srv.URL
		if c.WSScheme != "" {
			addr = c.WSScheme + strings.TrimPrefix(addr, "ws")
			res.Label("ws-scheme-not-lower-case")
		}
	} else {
		srv, err := peer.Listen(func(pc *peer.Conn) {
			if c.Prior && pc.Index == 0 {
				pc.Negotiate(prior, 10*time.Second)
				obsc <- obs{}
				pc.Close()
				return
			}
			o := pc.Negotiate(script, 10*time.Second)
			if o.Established {
				obsc <- obs{out: o, tr: pc.Transcript()}
				pc.AfterFault(8 * time.Second)
				return
			}
			// after a fault keep recording what the client still writes for a moment - also when the server goes on
			// talking on the unprotected connection: a request, which the router answers by itself (the application has no IQ route), and a message, which the application's
			// handler answers
			pc.Drain(300 * time.Millisecond)
			obsc <- obs{out: o, tr: pc.Transcript()}
			pc.AfterFault(5 * time.Second)
		})
		if err != nil {
			res.Fail("harness", "listen: %v", err)
			return res
		}
		defer srv.Close()
		addr = srv.Addr
	}
	cl, rec, _, err := newTestClientCfg(addr, opt)
	if err != nil {
		res.Fail("harness", "NewClient: %v", err)
		return res
	}
	if c.Prior {
		// the prior connection needs settings that work: it is made with a client whose settings accept the "both" certificate
		if !(verifyDisabled || (trusted && (c.ServerName == "" || c.ServerName == "localhost" || c.ServerName == "alt.example"))) {
			res.Excluded = true
			return res
		}
		if err := cl.Connect(); err != nil {
			res.Fail("harness-prior-connect", "prior connection failed: %v", err)
			return res
		}
		<-obsc
		if !waitFor(5*time.Second, func() bool { return rec.count(xmpp.StateDisconnected) >= 1 }) {
			res.Fail("harness-prior-disconnect", "prior connection: no Disconnected event")
			return res
		}
		res.Label("reconnect")
	}
	done := make(chan error, 1)
	go func() {
		if c.Prior {
			done <- cl.Resume()
		} else {
			done <- cl.Connect()
		}
	}()
	var cerr error
	select {
	case cerr = <-done:
	case <-time.After(vh.Margin(15 * time.Second)):
		res.Fail("t/connect-hangs", "Connect did not return (%+v)", c)
		return res
	}
	var o obs
	wait := 15 * time.Second
	if c.WSScheme != "" && cerr != nil {
		wait = 500 * time.Millisecond // the address need not be dialable at all: then nothing was written to anyone
	}
	select {
	case o = <-obsc:
	case <-time.After(wait):
		if c.WSScheme != "" && cerr != nil {
			res.Label("ws-scheme-variant-never-reached-the-server")
			break
		}
		res.Fail("harness", "peer did not report")
		return res
	}
	if cerr == nil {
		go func() { _ = cl.Disconnect() }()
	}
	desc := fmt.Sprintf("%+v", c)
	// (1)+(2): what arrived where
	for _, e := range o.tr {
		// ("open": the start tag of whatever the client wrote after it had ended its own stream)
		if e.Dir != "recv" || (e.Kind != "elem" && e.Kind != "open") {
			continue
		}
		sensitive := (e.Name.Local == "auth" && e.Name.Space == peer.NSSASL) || e.Name.Local == "iq" || e.Name.Local == "message" || e.Name.Local == "presence"
		if !sensitive {
			continue
		}
		if !e.InTLS && !c.Insecure {
			res.Fail("cleartext-"+e.Name.Local, "%s: insecure connections are not allowed, yet <%s> was written in clear text: %s", desc, e.Name.Local, trunc(e.Raw, 200))
		}
		if e.InTLS && certInvalidForDomain {
			res.Fail("unverified-tls-"+e.Name.Local, "%s: the certificate does not validate for the configured domain, yet <%s> was written inside TLS: %s", desc, e.Name.Local, trunc(e.Raw, 200))
		}
	}
	if tlsPossible && certInvalidForDomain && cerr == nil && c.Transport == "tcp" {
		res.Fail("connect-succeeds-with-invalid-cert", "%s: certificate invalid for the domain but Connect returned nil", desc)
	}
	if !c.Insecure && !tlsPossible && cerr == nil {
		res.Fail("connect-succeeds-without-tls", "%s: TLS could not be established and insecure mode is off, but Connect returned nil", desc)
	}
	// (3) non-vacuity: the legitimate combinations must work, with <auth/> inside TLS after a fresh stream header
	if expectSuccess {
		if cerr != nil {
			res.Fail("valid-combination-rejected", "%s: this combination is legitimate but Connect failed: %v", desc, cerr)
		} else if tlsPossible && c.Transport == "tcp" {
			sawOpenInTLS, authInTLS := false, false
			for _, e := range o.tr {
				if e.Dir == "recv" && e.InTLS && e.Kind == "open" {
					sawOpenInTLS = true
				}
				if e.Dir == "recv" && e.InTLS && e.Kind == "elem" && e.Name.Local == "auth" && sawOpenInTLS {
					authInTLS = true
				}
			}
			if !authInTLS {
				res.Fail("auth-not-inside-tls", "%s: Connect succeeded but no <auth/> was seen inside TLS after a fresh stream header", desc)
			}
		}
	}
	return res
}

var c04 = vh.Define(&vh.Def[c04Case]{
	Property: "C04", Name: "tls",
	Rule: "client settings {Insecure on/off} x {TLSConfig nil, RootCAs = test CA, InsecureSkipVerify} x {ServerName unset, = domain, = another name} (after a failed negotiation the server goes on to send an IQ request and a message on the unprotected connection) x {alone, or after another Client was built on the same *tls.Config with Insecure on / off (a quarter of the cases with a TLSConfig)} x server STARTTLS {not offered, offered, required} x reply {proceed, failure, unexpected element, malformed, close} x certificate {valid for the domain, wrong host, untrusted issuer, expired, valid only for the other name, valid for both} x {first connection, reconnection after a good TLS connection was lost} over TCP, plus ws:// addresses (in 2 of 5 with the scheme written WS / Ws / wS, for which only the clear-text rule is asserted); real TLS handshakes; oracle on the peer transcript, which tags every received element clear-text / inside-TLS: with Insecure off no <auth/> or stanza in clear text; with verification enabled and a certificate that does not validate for the domain no <auth/> or stanza inside TLS and Connect fails; the legitimate combinations must succeed with <auth/> inside TLS after a fresh stream header (guards against a vacuous fail-closed pass); non-trivial = TLS was attempted or Insecure is off",
	Quick: 400, Thorough: 3000, Journal: true,
	Gen: genC04, Run: runC04,
})

func TestC04_tls(t *testing.T) { c04.Check(t) }

// TestC04_enumerate walks the whole TCP configuration space (3240 combinations):
// completely in the thorough tier, a seed-selected 1/10 slice in the quick tier.
func TestC04_enumerate(t *testing.T) {
	sh, n := vh.Shard()
	slice := 1
	if !vh.Thorough() {
		slice = 10
	}
	pick := int(vh.Seed() % uint64(slice))
	k := 0
	for _, insecure := range []bool{false, true} {
		for _, tc := range c04TLSConfs {
			for _, sn := range c04Names {
				for _, offer := range c04Offers {
					for _, reply := range c04Replies {
						for _, cert := range c04Certs {
							for _, prior := range []bool{false, true} {
								k++
								if k%slice != pick || (k/slice)%n != sh {
									continue
								}
								if offer == "none" && (reply != "proceed" || cert != "valid") {
									continue // reply and certificate are irrelevant when STARTTLS is not offered
								}
								c04.RunCase(t, c04Case{Insecure: insecure, TLSConf: tc, ServerName: sn, Offer: offer, Reply: reply, Cert: cert, Prior: prior, Transport: "tcp"})
							}
						}
					}
				}
			}
		}
	}
	vh.Extra("C04", "C04_tls", "combinations_in_space", int64(k))
	if slice == 1 {
		vh.MarkExhaustive("C04", "C04_tls")
	}
}

func TestC04_Regress(t *testing.T) { vh.Regress(t, "C04") }
