package harness

// C14 — SASL: only an advertised, supported mechanism is used; the PLAIN
// payload is exact; failure is permanent; only <success/> authenticates.

import (
	"os"
	"encoding/base64"
	"errors"
	"fmt"
	"strings"
	"testing"
	"time"

	xmpp "gosrc.io/xmpp"
	"pgregory.net/rapid"
	"verifharness/peer"
	"verifharness/vh"
)

type c14Case struct {
	Local  string   `json:"local"`
	Secret []byte   `json:"secret"` // bytes: any Go string, including invalid UTF-8
	Token  bool     `json:"token"`
	Mechs  []string `json:"mechs"`
	Reply  string   `json:"reply"` // success failure other
	Var    int      `json:"var"`
	// TLS: the connection uses STARTTLS and PreMechs is what the server advertised before it (Mechs after it)
	TLS      bool     `json:"tls,omitempty"`
	PreMechs []string `json:"pre_mechs,omitempty"`
	// Prior: an earlier connection of the same Client succeeded against this mechanism list and was lost
	Prior []string `json:"prior,omitempty"`
	// AuthWrite: fault injected at the write of the <auth/> element (single connection only): "zero" = the transport
	// reports 0 bytes written and no error, "error" = 0 bytes and an error, "partial" = half of the bytes, then an error
	AuthWrite string `json:"auth_write,omitempty"`
	// Logger: the traffic logger is on (the bytes of <auth/> pass through it on their way to the socket)
	Logger bool `json:"logger,omitempty"`
}

func genC14(t *rapid.T) c14Case {
	var c c14Case
	// local part: everything NewJid accepts
	n := rapid.IntRange(1, 8).Draw(t, "localLen")
	var sb strings.Builder
	for i := 0; i < n; i++ {
		switch rapid.IntRange(0, 5).Draw(t, "lc") {
		case 0:
			sb.WriteRune(rapid.RuneFrom([]rune("&;!#$%*+=?^`{|}~()[],\\\x00\x01\x7f")).Draw(t, "odd"))
		case 1:
			sb.WriteRune(rapid.RuneFrom([]rune("éßжλ中あ🙂")).Draw(t, "uni"))
		default:
			sb.WriteRune(rapid.RuneFrom([]rune("abcxyzABZ0189-._")).Draw(t, "plain"))
		}
	}
	c.Local = sb.String()
	switch rapid.IntRange(0, 3).Draw(t, "secretClass") {
	case 0:
		c.Secret = []byte(rapid.StringMatching(`[a-zA-Z0-9]{1,12}`).Draw(t, "secret"))
	case 1:
		c.Secret = rapid.SliceOfN(rapid.Byte(), 1, 16).Draw(t, "secretBytes")
	case 2:
		c.Secret = []byte(rapid.SampledFrom([]string{"\x00", "\x00a", "a\x00", "a\x00b\x00", "<&>\"'", "]]>", " ", "\n", "pässwörd", "\xff\xfe", "="}).Draw(t, "secretConst"))
	default:
		c.Secret = []byte(genText(t, "secretText"))
		if len(c.Secret) == 0 {
			c.Secret = []byte("x")
		}
	}
	c.Token = rapid.IntRange(0, 3).Draw(t, "token") == 0
	known := []string{"PLAIN", "X-OAUTH2", "SCRAM-SHA-1", "DIGEST-MD5", "ANONYMOUS", "EXTERNAL", "plain", "PLAIN ", "X-OAUTH", ""}
	k := rapid.IntRange(0, 5).Draw(t, "nmechs")
	for i := 0; i < k; i++ {
		c.Mechs = append(c.Mechs, rapid.SampledFrom(known).Draw(t, "mech"))
	}
	if rapid.Bool().Draw(t, "ensureCommon") {
		m := "PLAIN"
		if c.Token {
			m = "X-OAUTH2"
		}
		pos := rapid.IntRange(0, len(c.Mechs)).Draw(t, "pos")
		c.Mechs = append(c.Mechs[:pos], append([]string{m}, c.Mechs[pos:]...)...)
	}
	pick := func(label string) []string {
		var l []string
		k := rapid.IntRange(0, 3).Draw(t, label+"N")
		for i := 0; i < k; i++ {
			l = append(l, rapid.SampledFrom([]string{"PLAIN", "X-OAUTH2", "SCRAM-SHA-1", "ANONYMOUS"}).Draw(t, label))
		}
		return l
	}
	switch rapid.IntRange(0, 5).Draw(t, "multi") {
	case 0: // the list changes across STARTTLS
		c.TLS = true
		c.PreMechs = pick("pre")
		if c.PreMechs == nil {
			c.PreMechs = []string{}
		}
	case 1: // the same client connected before, against another list
		m := "PLAIN"
		if c.Token {
			m = "X-OAUTH2"
		}
		c.Prior = append([]string{m}, pick("prior")...)
	}
	if c.Prior == nil && rapid.IntRange(0, 7).Draw(t, "authWriteFault") == 0 {
		c.AuthWrite = rapid.SampledFrom([]string{"zero", "error", "partial"}).Draw(t, "authWrite")
	}
	c.Logger = rapid.IntRange(0, 2).Draw(t, "logger") == 0
	c.Reply = rapid.SampledFrom([]string{"success", "success", "failure", "other"}).Draw(t, "reply")
	c.Var = rapid.IntRange(0, 7).Draw(t, "var")
	if c.Reply == "failure" {
		c.Var = rapid.IntRange(0, len(peer.SASLFailures)-1).Draw(t, "failureForm")
	}
	return c
}

func runC14(c c14Case) vh.Result {
	var res vh.Result
	script := &peer.Script{Mechs: c.Mechs, OfferTLS: c.TLS, MechsPreTLS: c.PreMechs}
	if c.Var%4 == 3 {
		// the feature sets also carry a <mechanisms/> look-alike from a foreign namespace that lists PLAIN and X-OAUTH2
		script.Variant = map[string]int{"open1": 4, "open2": 4}
		res.Label("foreign-mechanisms-lookalike")
	}
	switch c.Reply {
	case "failure":
		script.Dev = map[string]peer.Dev{"auth": {Kind: "failure", Variant: c.Var}}
	case "other":
		script.Dev = map[string]peer.Dev{"auth": {Kind: "unexpected", Variant: c.Var}}
	}
	outc := make(chan *peer.Outcome, 1)
	var conn *peer.Conn
	priorDone := make(chan struct{}, 1)
	srv, err := peer.Listen(func(pc *peer.Conn) {
		if c.Prior != nil && pc.Index == 0 {
			pc.Negotiate(&peer.Script{Mechs: c.Prior}, 10*time.Second)
			priorDone <- struct{}{}
			pc.GracefulClose(time.Second)
			return
		}
		conn = pc
		o := pc.Negotiate(script, 10*time.Second)
		outc <- o
		if o.Established {
			// keep the session open until the client goes away
			pc.AfterFault(10 * time.Second)
		}
	})
	if err != nil {
		res.Fail("harness", "listen: %v", err)
		return res
	}
	defer srv.Close()
	cl, rec, err := newTestClient(srv.Addr, clientOpt{Jid: c.Local + "@localhost/res", Secret: string(c.Secret), Token: c.Token, Insecure: true})
	if err != nil {
		res.Fail("harness-newclient", "NewClient(%q): %v", c.Local, err)
		return res
	}
	if c.Logger {
		res.Label("traffic-logger")
		if f, err := os.CreateTemp("", "verif-c14-*.log"); err == nil {
			defer os.Remove(f.Name())
			defer f.Close()
			xmpp.VerifGetTransport(cl).LogTraffic(f)
		}
	}
	if c.AuthWrite != "" && c.Prior == nil {
		wrap := &stubTransport{inner: xmpp.VerifGetTransport(cl)}
		wrap.writeFault = func(p []byte, inner xmpp.Transport) (bool, int, error) {
			if !strings.HasPrefix(string(p), "<auth") {
				return false, 0, nil
			}
			switch c.AuthWrite {
			case "zero":
				return true, 0, nil
			case "partial":
				n, _ := inner.Write(p[:len(p)/2])
				return true, n, errors.New("injected write failure")
			}
			return true, 0, errors.New("injected write failure")
		}
		xmpp.VerifSetTransport(cl, wrap)
	}
	if c.Prior != nil {
		res.Label("reconnection-with-other-list")
		if err := cl.Connect(); err != nil {
			res.Fail("harness-prior-connect", "prior connection (mechanisms %q) failed: %v", c.Prior, err)
			return res
		}
		<-priorDone
		if !waitFor(5*time.Second, func() bool { return rec.count(xmpp.StateDisconnected) >= 1 }) {
			res.Fail("harness-prior-disconnect", "prior connection: no Disconnected event")
			return res
		}
	}
	if c.TLS {
		res.Label("list-changes-across-starttls")
	}
	t0 := time.Now()
	var cerr error
	if c.Prior != nil {
		cerr = cl.Resume()
	} else {
		cerr = cl.Connect()
	}
	connectTime := time.Since(t0)
	var o *peer.Outcome
	if cerr == nil {
		_ = cl.Disconnect()
	}
	select {
	case o = <-outc:
	case <-time.After(15 * time.Second):
		res.Fail("harness", "peer did not finish")
		return res
	}
	_ = conn
	_ = rec
	want := "PLAIN"
	if c.Token {
		want = "X-OAUTH2"
	}
	common := false
	for _, m := range c.Mechs {
		if m == want {
			common = true
		}
	}
	res.NonTrivial = !(len(c.Mechs) == 1 && c.Mechs[0] == "PLAIN") || !isAlnum(string(c.Secret)) || !isAlnum(c.Local)
	if common {
		res.Label("common-mechanism")
	} else {
		res.Label("no-common-mechanism")
	}
	res.Label("reply-" + c.Reply)
	var ce xmpp.ConnError
	permanent := errors.As(cerr, &ce) && ce.Permanent
	if !common {
		if o.AuthReq != nil {
			res.Fail("auth-without-common-mechanism", "server offered %q, credential supports %s, yet the client sent %s", c.Mechs, want, o.AuthReq.Raw)
		}
		// nothing may be written after the stream header
		for _, st := range o.Steps {
			if st != "open1" && !(c.TLS && (st == "starttls" || st == "tls" || st == "open2")) {
				res.Fail("request-without-common-mechanism", "client went on to step %s although no common mechanism exists (offered %q)", st, c.Mechs)
			}
		}
		if cerr == nil {
			res.Fail("connect-succeeds-without-auth", "Connect returned nil although no common SASL mechanism exists (offered %q)", c.Mechs)
		} else if !permanent {
			res.Fail("no-mechanism-not-permanent", "no common mechanism: Connect error is not a permanent ConnError: %v", cerr)
		}
		return res
	}
	if c.AuthWrite != "" && c.Prior == nil {
		// the element never reached the server in one piece, so the server never said <success/>
		res.Label("auth-write-fault")
		if o.AuthReq != nil {
			res.Fail("harness-auth-seen-despite-fault", "the auth write was faulted (%s) yet the server received %s", c.AuthWrite, o.AuthReq.Raw)
		} else if cerr == nil {
			res.Fail("authenticated-without-success", "the <auth/> element was not written (%s: the transport reported no bytes / an error), the server never answered <success/>, yet Connect returned nil (server saw steps %v)", c.AuthWrite, o.Steps)
		}
		return res
	}
	if o.AuthReq == nil {
		res.Fail("no-auth-sent", "common mechanism %s offered in %q but no <auth/> received; Connect error %v", want, c.Mechs, cerr)
		return res
	}
	if got := o.AuthReq.Attr["mechanism"]; got != want {
		res.Fail("wrong-mechanism", "<auth mechanism=%q>, expected %q (offered %q)", got, want, c.Mechs)
	}
	payload, derr := base64.StdEncoding.DecodeString(strings.TrimSpace(o.AuthReq.Inner))
	wantPayload := "\x00" + c.Local + "\x00" + string(c.Secret)
	if derr != nil {
		res.Fail("payload-not-base64", "auth payload %q is not base64: %v", o.AuthReq.Inner, derr)
	} else if string(payload) != wantPayload {
		res.Fail("wrong-payload", "decoded auth payload %q, expected %q", payload, wantPayload)
	}
	switch c.Reply {
	case "success":
		if cerr != nil {
			res.Fail("success-rejected", "server answered <success/> and completed negotiation but Connect failed: %v", cerr)
		}
	case "failure":
		if cerr == nil {
			res.Fail("failure-accepted", "server answered <failure/> but Connect returned nil")
		} else if !permanent {
			res.Fail("failure-not-permanent", "server answered <failure/>: Connect error is not a permanent ConnError: %T %v", cerr, cerr)
		}
	case "other":
		if cerr == nil {
			res.Fail("non-success-accepted", "server answered something other than <success/> (variant %d) but Connect returned nil", c.Var)
		}
	}
	if connectTime > 8*time.Second {
		res.Fail("connect-slow", "Connect took %v", connectTime)
	}
	_ = fmt.Sprint
	return res
}

func isAlnum(s string) bool {
	for _, r := range s {
		if !(r >= 'a' && r <= 'z' || r >= 'A' && r <= 'Z' || r >= '0' && r <= '9') {
			return false
		}
	}
	return true
}

var c14 = vh.Define(&vh.Def[c14Case]{
	Property: "C14", Name: "sasl",
	Rule: "local parts over everything NewJid accepts (ASCII, odd punctuation incl. & and NUL, non-ASCII, astral), secrets as arbitrary byte strings (alphanumeric, random bytes incl. invalid UTF-8, NUL-adjacent, XML metacharacters, all XML-legal text), password or token credential, server mechanism lists of 0-6 names drawn with repetition from known, unknown, wrong-case and empty names (with the matching mechanism inserted at a generated position in half of the cases; in a quarter of the cases the features also carry a <mechanisms/> look-alike from a foreign namespace that lists both mechanisms and offers nothing), server reply success / failure (13 forms: every RFC 6120 condition, with and without text, none, an undefined one) / another element (8 forms); in a third of the cases the list differs before and after STARTTLS, or the same Client made an earlier successful connection against another list and reconnects; in an eighth of the single-connection cases the write of the <auth/> element is faulted in a wrapped Transport (0 bytes and no error, an error, or half of the bytes and an error) and Connect must then fail; a real Client, in a third of the cases with the traffic logger on, connects to the scripted peer over TCP; oracle on the peer transcript: mechanism == the one the credential supports and it was advertised, base64-decoded payload == NUL local NUL secret byte for byte; no common mechanism => nothing after the stream header and a permanent ConnError; <failure/> => permanent error; anything but <success/> => Connect fails; non-trivial = secret or local part not purely alphanumeric, or the mechanism list is not exactly [PLAIN]",
	Quick: 3000, Thorough: 24000, Journal: true,
	Gen: genC14, Run: runC14,
})

func TestC14_sasl(t *testing.T)    { c14.Check(t) }
func TestC14_Regress(t *testing.T) { vh.Regress(t, "C14") }
