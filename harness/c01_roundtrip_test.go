package harness

// C01 — stanza encode/decode round trip; text never injects XML.

import (
	"bytes"
	"encoding/json"
	"encoding/xml"
	"fmt"
	"io"
	"os"
	"path/filepath"
	"reflect"
	"regexp"
	"sort"
	"strings"
	"testing"

	"gosrc.io/xmpp/stanza"
	"pgregory.net/rapid"
	"verifharness/vh"
)

type c01Case struct {
	Root string      `json:"root"` // Go type name of the value
	Plan interface{} `json:"plan"`
}

// skeleton returns the element/attribute-name structure of an XML document.
func skeleton(doc []byte) (string, error) {
	d := xml.NewDecoder(bytes.NewReader(doc))
	var sb strings.Builder
	for {
		tok, err := d.RawToken()
		if err == io.EOF {
			return sb.String(), nil
		}
		if err != nil {
			return sb.String(), err
		}
		switch t := tok.(type) {
		case xml.StartElement:
			sb.WriteString("<" + t.Name.Space + ":" + t.Name.Local)
			for _, a := range t.Attr {
				sb.WriteString(" " + a.Name.Space + ":" + a.Name.Local)
				if a.Name.Local == "xmlns" || a.Name.Space == "xmlns" {
					sb.WriteString("=" + a.Value)
				}
			}
			sb.WriteString(">")
		case xml.EndElement:
			sb.WriteString("</" + t.Name.Space + ":" + t.Name.Local + ">")
		case xml.Comment:
			sb.WriteString("<!--comment-->")
		case xml.ProcInst:
			sb.WriteString("<?pi?>")
		case xml.Directive:
			sb.WriteString("<!directive>")
		}
	}
}

// wellFormedOneRoot checks that doc is a single well-formed element.
func wellFormedOneRoot(doc []byte) error {
	d := xml.NewDecoder(bytes.NewReader(doc))
	depth, roots := 0, 0
	for {
		tok, err := d.Token()
		if err == io.EOF {
			break
		}
		if err != nil {
			return err
		}
		switch t := tok.(type) {
		case xml.StartElement:
			if depth == 0 {
				roots++
			}
			depth++
		case xml.EndElement:
			depth--
		case xml.CharData:
			if depth == 0 && len(bytes.TrimSpace(t)) > 0 {
				return fmt.Errorf("text outside the root element: %q", string(t))
			}
		}
	}
	if depth != 0 {
		return fmt.Errorf("unbalanced document")
	}
	if roots != 1 {
		return fmt.Errorf("%d root elements", roots)
	}
	return nil
}

func diffFlat(a, b map[string]string) (lost, changed, invented []string) {
	for k, v := range a {
		w, ok := b[k]
		if !ok {
			lost = append(lost, k)
		} else if v != w {
			changed = append(changed, k)
		}
	}
	for k := range b {
		if _, ok := a[k]; !ok {
			invented = append(invented, k)
		}
	}
	sort.Strings(lost)
	sort.Strings(changed)
	sort.Strings(invented)
	return
}

func trunc(s string, n int) string {
	if len(s) > n {
		return s[:n] + "..."
	}
	return s
}

// contextFree strips the nesting through <forwarded/> from a path so that the
// class key of a defect does not depend on where the value was nested.
var forwardedRe = regexp.MustCompile(`^.*\.Stanza\((IQ|Message|Presence)\)`)

func contextFree(p string) string { return forwardedRe.ReplaceAllString(p, "$1") }

func compareValues(res *vh.Result, how, root string, orig, parsed reflect.Value, m1 []byte) (clean bool) {
	fa, fb := map[string]string{}, map[string]string{}
	flatten(orig, root, fa)
	flatten(parsed, root, fb)
	lost, changed, invented := diffFlat(fa, fb)
	clean = true
	seen := map[string]bool{}
	report := func(kind string, paths []string) {
		for _, p := range paths {
			clean = false
			key := kind + ":" + contextFree(classPath(p))
			if kind == "value-changed" && strings.ReplaceAll(strings.ReplaceAll(fa[p], "\r\n", "\n"), "\r", "\n") == fb[p] {
				key = "value-changed-cr-normalised:" + contextFree(classPath(p)) // CR became LF: XML line-end normalisation of a literal CR
			}
			if seen[key] {
				continue
			}
			seen[key] = true
			res.Fail(key, "%s: %s %s: original %q, parsed %q; xml=%s", how, kind, p, trunc(fa[p], 80), trunc(fb[p], 80), trunc(string(m1), 400))
		}
	}
	report("value-lost", lost)
	report("value-changed", changed)
	report("value-invented", invented)
	return
}

var c01StreamRoots = map[string]string{ // root type -> stream header for the NextPacket path
	"Message": clientStreamHeader, "Presence": clientStreamHeader, "IQ": clientStreamHeader,
	"SMEnabled": clientStreamHeader, "SMResumed": clientStreamHeader, "SMResume": clientStreamHeader, "SMRequest": clientStreamHeader,
	"SMAnswer": clientStreamHeader, "SMFailed": clientStreamHeader, "SASLSuccess": clientStreamHeader, "Handshake": componentStreamHeader,
}

func runC01(c c01Case) vh.Result {
	var res vh.Result
	typ, ok := c01Types[c.Root]
	if !ok {
		res.Fail("harness", "unknown root type %q", c.Root)
		return res
	}
	res.Label("root-" + c.Root)
	pv := reflect.New(typ)
	pv.Elem().Set((&builder{}).build(c.Plan, typ, ""))
	m1, err := xml.Marshal(pv.Interface())
	if err != nil {
		res.Fail("marshal-error:"+c.Root, "xml.Marshal failed: %v (plan %v)", err, c.Plan)
		return res
	}
	// (d) well-formed, one root
	if err := wellFormedOneRoot(m1); err != nil {
		res.Fail("not-wellformed:"+c.Root, "serialised value is not one well-formed element: %v; xml=%s", err, trunc(string(m1), 600))
		return res
	}
	// (c) injection metamorphism: same skeleton as the benign variant
	bv := reflect.New(typ)
	bv.Elem().Set((&builder{benign: true}).build(c.Plan, typ, ""))
	mb, err := xml.Marshal(bv.Interface())
	if err == nil {
		s1, e1 := skeleton(m1)
		s2, e2 := skeleton(mb)
		if e1 != nil || e2 != nil || s1 != s2 {
			res.Fail("structure-changed-by-text:"+c.Root, "element structure depends on text content:\n value : %s\n benign: %s", trunc(string(m1), 600), trunc(string(mb), 600))
		}
	}
	// (a)+(b) through xml.Unmarshal
	p1 := reflect.New(typ)
	if err := xml.Unmarshal(m1, p1.Interface()); err != nil {
		res.Fail("unmarshal-error:"+c.Root, "xml.Unmarshal of the serialised value failed: %v; xml=%s", err, trunc(string(m1), 600))
		return res
	}
	clean := compareValues(&res, "xml.Unmarshal", c.Root, pv.Elem(), p1.Elem(), m1)
	if clean {
		m2, err := xml.Marshal(p1.Interface())
		if err != nil {
			res.Fail("remarshal-error:"+c.Root, "xml.Marshal of the parsed value failed: %v", err)
		} else if !bytes.Equal(m1, m2) {
			res.Fail("bytes-differ:"+c.Root, "re-serialising the parsed value changes the bytes:\n first : %s\n second: %s", trunc(string(m1), 600), trunc(string(m2), 600))
		}
	}
	// the same through the stream parser
	if hdr, ok := c01StreamRoots[c.Root]; ok {
		d := xml.NewDecoder(strings.NewReader(hdr + string(m1)))
		if _, err := stanza.InitStream(d); err != nil {
			res.Fail("harness", "stream header: %v", err)
			return res
		}
		pkt, err := stanza.NextPacket(d)
		if err != nil {
			res.Fail("nextpacket-error:"+c.Root, "NextPacket on the serialised value failed: %v; xml=%s", err, trunc(string(m1), 600))
		} else {
			pvv := reflect.ValueOf(pkt)
			if pvv.Kind() == reflect.Ptr {
				pvv = pvv.Elem()
			}
			if pvv.Type() != typ {
				res.Fail("nextpacket-kind:"+c.Root, "NextPacket returned %T for a %s; xml=%s", pkt, c.Root, trunc(string(m1), 300))
			} else {
				clean := compareValues(&res, "NextPacket", c.Root, pv.Elem(), pvv, m1)
				if clean {
					m3, err := xml.Marshal(pkt)
					if err != nil {
						res.Fail("remarshal-error:"+c.Root, "xml.Marshal of the packet failed: %v", err)
					} else if !bytes.Equal(m1, m3) {
						res.Fail("bytes-differ-stream:"+c.Root, "re-serialising the packet read from a stream changes the bytes:\n first : %s\n second: %s", trunc(string(m1), 600), trunc(string(m3), 600))
					}
				}
			}
		}
	}
	return res
}

func c01NonTrivial(g *planGen, plan interface{}) bool {
	return g.metachar || g.nexts >= 1
}

func genC01Root(root string) func(t *rapid.T) c01Case {
	return func(t *rapid.T) c01Case {
		g := &planGen{t: t}
		r := root
		if r == "nonza" {
			r = rapid.SampledFrom([]string{"SMEnable", "SMEnabled", "SMRequest", "SMAnswer", "SMResume", "SMResumed", "SMFailed", "SASLAuth", "SASLSuccess", "Handshake"}).Draw(t, "nonza")
		}
		plan := g.value(c01Types[r], "")
		for r == "Err" && plan == nil { // a zero Err is "no error" and serialises to nothing
			plan = g.err()
		}
		// JSON round trip so that the case that runs is exactly the case a replay would run
		b, _ := json.Marshal(plan)
		var p2 interface{}
		_ = json.Unmarshal(b, &p2)
		return c01Case{Root: r, Plan: p2}
	}
}

func c01Run(c c01Case) vh.Result {
	res := runC01(c)
	b, _ := json.Marshal(c.Plan)
	s := string(b)
	meta := strings.Contains(s, "'") || strings.Contains(s, `\"`) || strings.Contains(s, `\u003c`) || strings.Contains(s, `\u0026`) || strings.Contains(s, `\u003e`)
	nested := strings.Count(s, `"T":`)
	res.NonTrivial = meta || nested >= 1 || strings.Contains(s, `"Nodes":[{`)
	if meta {
		res.Label("metachar-text")
	}
	if nested >= 2 {
		res.Label("two-or-more-extensions")
	}
	if strings.Contains(s, `"Nodes":[{`) {
		res.Label("node-depth>=2")
	}
	for _, l := range c01Registered {
		for _, nm := range l {
			if strings.Contains(s, `"Local":"`+nm[1]+`"`) && strings.Contains(s, `"Space":"`+nm[0]+`"`) {
				res.Label("generic-node-with-a-name-registered-elsewhere")
			}
		}
	}
	return res
}

func c01Def(name, root, what string, quick, thorough int) *vh.Def[c01Case] {
	return vh.Define(&vh.Def[c01Case]{
		Property: "C01", Name: name,
		Rule: what + "; values are built by a reflection-guided generator over the library's own Go types (every exported field; strings over all XML-legal code points weighted to < > & quotes, ]]>, white space, non-ASCII, astral; innerxml and element-name fields from their documented alphabets; generic Nodes with explicit namespaces, depth <= 4, a fifth of those directly below a stanza named like an extension that is registered for another kind of stanza); oracles: well-formed single root, element/attribute skeleton equal to that of the same value with every text replaced by 'x', value equality field by field after xml.Unmarshal and after stanza.NextPacket on a stream, byte equality of the re-serialised value; non-trivial = some string contains an XML metacharacter, or the value nests at least one extension/payload, or a Node of depth >= 2",
		Quick:  quick, Thorough: thorough,
		Gen: genC01Root(root), Run: c01Run,
	})
}

var (
	c01Message  = c01Def("message", "Message", "Message with every subset of type/id/from/to/lang, subject/body/thread, Err, 0-5 registered message extensions in any order with repetition", 20000, 1200000)
	c01Presence = c01Def("presence", "Presence", "Presence with attrs, show/status/priority (whole int8 range), Err, MucPresence with every subset of history attributes", 12000, 600000)
	c01IQ       = c01Def("iq", "IQ", "IQ of any type with a payload of every registered IQ payload type, or a generic Node tree, or none; optional Err", 20000, 1200000)
	c01Nonza    = c01Def("nonza", "nonza", "stream-management elements (enable/enabled/r/a/resume/resumed/failed with every stream error condition), SASL auth/success, component handshake", 10000, 400000)
	c01Node     = c01Def("node", "Node", "generic Node trees alone", 10000, 600000)
	c01Err      = c01Def("err", "Err", "Err alone (code 0 or 1-999, type, RFC 6120 condition or arbitrary NCName, text)", 6000, 300000)
)

// The IQ check runs first: IQs are the stanzas that carry generic nodes, some of them named like extensions that are
// registered for messages or presences only, and whatever a decoder remembers about a name (the type registry is
// process-wide) must not change how the stanzas that come later in the same process are decoded.
func TestC01_iq(t *testing.T)       { c01IQ.Check(t) }
func TestC01_message(t *testing.T)  { c01Message.Check(t) }
func TestC01_presence(t *testing.T) { c01Presence.Check(t) }
func TestC01_nonza(t *testing.T)    { c01Nonza.Check(t) }
func TestC01_node(t *testing.T)     { c01Node.Check(t) }
func TestC01_err(t *testing.T)      { c01Err.Check(t) }
func TestC01_Regress(t *testing.T)  { vh.Regress(t, "C01") }

// TestC01_completeness: every type registered with MapExtension in the
// repository's stanza package must be known to the generator tables.
func TestC01_completeness(t *testing.T) {
	repo := os.Getenv("VERIF_REPO")
	if repo == "" {
		repo = "/repo"
	}
	files, _ := filepath.Glob(filepath.Join(repo, "stanza", "*.go"))
	re := regexp.MustCompile(`MapExtension\(\s*(PKT\w+)\s*,\s*xml\.Name\{[^}]*\}\s*,\s*(\w+)\{\}\)`)
	n := 0
	for _, f := range files {
		if strings.HasSuffix(f, "_test.go") {
			continue
		}
		b, err := os.ReadFile(f)
		if err != nil {
			continue
		}
		for _, m := range re.FindAllStringSubmatch(string(b), -1) {
			n++
			iface := map[string]string{"PKTMessage": "MsgExtension", "PKTPresence": "PresExtension", "PKTIQ": "IQPayload"}[m[1]]
			found := false
			for _, it := range c01Impls[iface] {
				if it.Name() == m[2] {
					found = true
				}
			}
			if !found {
				t.Errorf("HARNESS-INCOMPLETE: %s registers %s for %s but the C01 generator has no entry for it", filepath.Base(f), m[2], m[1])
			}
		}
	}
	if n < 30 {
		t.Errorf("HARNESS-INCOMPLETE: only %d MapExtension calls found under %s/stanza", n, repo)
	}
	vh.Extra("C01", "C01_message", "registered_types_checked", int64(n))
}
