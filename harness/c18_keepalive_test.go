package harness

// C18 — keepalive: sent at the interval, closes a dead connection, stops with
// the session.

import (
	"sync/atomic"
	"encoding/xml"
	"errors"
	"fmt"
	"io"
	"sync"
	"testing"
	"time"

	xmpp "gosrc.io/xmpp"
	"pgregory.net/rapid"
	"verifharness/peer"
	"verifharness/vh"
)

// stubTransport records Ping / Close calls; Ping fails from the FailAt-th call on.
type stubTransport struct {
	mu      sync.Mutex
	pings   []time.Time
	closes  []time.Time
	failAt  int // 1-based; 0 = never
	inner   xmpp.Transport
	pingErr error
	onWrite func(p []byte) // called with the bytes of every Write before it returns (C07: response racing the request)
	// writeFault, when set, may take over a Write: handled = true returns (n, err) to the caller instead of writing
	writeFault func(p []byte, inner xmpp.Transport) (handled bool, n int, err error)
	// failStarted / failRelease, when set: the first failing Ping announces itself and returns its error only when
	// released (a write that hangs on a dead connection before it fails)
	failStarted chan struct{}
	failRelease chan struct{}
	failOnce    bool // only the failAt-th Ping fails, later ones go through again
}

func (s *stubTransport) Connect() (string, error) {
	if s.inner != nil {
		return s.inner.Connect()
	}
	return "id", nil
}
func (s *stubTransport) DoesStartTLS() bool {
	if s.inner != nil {
		return s.inner.DoesStartTLS()
	}
	return false
}
func (s *stubTransport) StartTLS() error {
	if s.inner != nil {
		return s.inner.StartTLS()
	}
	return nil
}
func (s *stubTransport) LogTraffic(w io.Writer) {
	if s.inner != nil {
		s.inner.LogTraffic(w)
	}
}
func (s *stubTransport) StartStream() (string, error) {
	if s.inner != nil {
		return s.inner.StartStream()
	}
	return "id", nil
}
func (s *stubTransport) GetDecoder() *xml.Decoder {
	if s.inner != nil {
		return s.inner.GetDecoder()
	}
	return nil
}
func (s *stubTransport) IsSecure() bool {
	if s.inner != nil {
		return s.inner.IsSecure()
	}
	return false
}
func (s *stubTransport) Read(p []byte) (int, error) {
	if s.inner != nil {
		return s.inner.Read(p)
	}
	return 0, io.EOF
}
func (s *stubTransport) Write(p []byte) (int, error) {
	if s.onWrite != nil {
		s.onWrite(p)
	}
	if s.writeFault != nil {
		if h, n, err := s.writeFault(p, s.inner); h {
			return n, err
		}
	}
	if s.inner != nil {
		return s.inner.Write(p)
	}
	return len(p), nil
}
func (s *stubTransport) ReceivedStreamClose() {
	if s.inner != nil {
		s.inner.ReceivedStreamClose()
	}
}
func (s *stubTransport) Ping() error {
	s.mu.Lock()
	s.pings = append(s.pings, time.Now())
	n := len(s.pings)
	fail := s.failAt > 0 && n >= s.failAt
	if s.failOnce {
		fail = n == s.failAt
	}
	s.mu.Unlock()
	if fail {
		if s.failStarted != nil && n == s.failAt {
			close(s.failStarted)
			<-s.failRelease
		}
		return errors.New("injected ping failure")
	}
	if s.inner != nil {
		return s.inner.Ping()
	}
	return nil
}
func (s *stubTransport) Close() error {
	s.mu.Lock()
	s.closes = append(s.closes, time.Now())
	s.mu.Unlock()
	if s.inner != nil {
		return s.inner.Close()
	}
	return nil
}
func (s *stubTransport) snapshot() (pings, closes []time.Time) {
	s.mu.Lock()
	defer s.mu.Unlock()
	return append([]time.Time(nil), s.pings...), append([]time.Time(nil), s.closes...)
}

type c18Case struct {
	IntervalMs int `json:"interval_ms"`
	FailAt     int `json:"fail_at"`     // k-th ping fails (0 = never)
	QuitAfter  int `json:"quit_after"`  // session ends after this many tenths of an interval (0 = never before the run ends)
	RunFor     int `json:"run_for"`     // observation window in intervals
	EndToEnd   bool `json:"end_to_end"` // real Client + scripted peer instead of the bare keepalive loop
	// StreamClose (end to end only): the session ends because the server sends </stream:stream> and keeps the TCP
	// connection open, instead of a cut of the connection
	StreamClose bool `json:"stream_close,omitempty"`
	// TLS (end to end only): the session was upgraded with STARTTLS, so the keepalive has to travel inside the TLS
	// stream like every other byte
	TLS bool `json:"tls,omitempty"`
	// SlowHandler (end to end only): the application's handler of the Disconnected event takes 8 intervals (a
	// StreamManager spends that time reconnecting inside it); the ended session's keepalive must be silent meanwhile
	SlowHandler bool `json:"slow_handler,omitempty"`
	// WS (end to end only, instead of TLS): WebSocket transport, where the keepalive is a ping frame the library waits
	// to be answered; the wrapped Transport counts the attempts (the ping frames themselves are not visible to the peer)
	WS bool `json:"ws,omitempty"`
	// PriorDisconnect (end to end, TCP, steady mode): the same Client had an earlier session which the application
	// ended with Disconnect - still in flight, the server never answers the stream end - and reconnected as soon as the
	// loss was reported; the new session is then watched for longer than Transport.Close waits (ConnectTimeout, 1 s)
	PriorDisconnect bool `json:"prior_disconnect,omitempty"`
	// PingFailsLate (end to end, clear-text TCP): the FailAt-th keepalive hangs; meanwhile the connection is cut, the
	// loss is reported and the application reconnects; only then does the keepalive return its error. The new session is
	// watched for 1.3 s: a keepalive of the old session must not close it
	PingFailsLate bool `json:"ping_fails_late,omitempty"`
	// HookFails (end to end, clear-text TCP, steady mode): the application's PostConnectHook fails at the first Connect,
	// which therefore returns an error: no session, so no keepalive; the application then connects again (hook fine) and
	// that session must get its keepalives at the configured rate, not more
	HookFails bool `json:"hook_fails,omitempty"`
	// LongIdle (fixed cases, clear-text TCP or STARTTLS): one keepalive is written on a session whose interval is an
	// hour, then nothing happens for 5.6 s: a keepalive must leave the connection as it found it (a deadline left
	// armed by it would end a healthy session after 5 s), so a stanza sent then is still routed
	LongIdle bool `json:"long_idle,omitempty"`
}

func genC18(t *rapid.T) c18Case {
	c := c18Case{IntervalMs: rapid.IntRange(2, 40).Draw(t, "interval"), RunFor: rapid.IntRange(4, 14).Draw(t, "runFor")}
	switch rapid.IntRange(0, 2).Draw(t, "mode") {
	case 0:
		c.FailAt = rapid.IntRange(1, 10).Draw(t, "failAt")
		if c.RunFor < c.FailAt+3 {
			c.RunFor = c.FailAt + 3
		}
	case 1:
		c.QuitAfter = rapid.IntRange(1, 100).Draw(t, "quitAfter")
		if c.RunFor*10 < c.QuitAfter+40 {
			c.RunFor = (c.QuitAfter + 40) / 10
		}
	}
	c.EndToEnd = rapid.IntRange(0, 3).Draw(t, "e2e") == 0
	if !c.EndToEnd && c.FailAt == 0 && c.QuitAfter == 0 && rapid.IntRange(0, 3).Draw(t, "aboveOneSecond") == 0 {
		// an interval above one second that is not a whole number of seconds, watched for two intervals
		c.IntervalMs = rapid.IntRange(1001, 1999).Draw(t, "intervalAboveOneSecond")
		c.RunFor = 2
	}
	if c.EndToEnd {
		c.StreamClose = rapid.Bool().Draw(t, "streamClose")
		c.TLS = rapid.Bool().Draw(t, "tls")
		c.SlowHandler = rapid.Bool().Draw(t, "slowHandler")
		if !c.TLS && rapid.IntRange(0, 2).Draw(t, "ws") == 0 {
			c.WS = true
		}
		if !c.WS && !c.TLS && c.FailAt > 0 && rapid.IntRange(0, 1).Draw(t, "pingFailsLate") == 0 {
			c.PingFailsLate = true
			c.SlowHandler = false
		}
		if !c.WS && !c.TLS && c.FailAt == 0 && rapid.IntRange(0, 3).Draw(t, "hookFails") == 0 {
			c.HookFails = true
			c.SlowHandler = false
		} else if !c.WS && c.FailAt == 0 && rapid.IntRange(0, 2).Draw(t, "priorDisconnect") == 0 {
			c.PriorDisconnect = true
			c.SlowHandler = false
		}
	}
	return c
}

func runC18(c c18Case) vh.Result {
	if c.EndToEnd {
		return runC18E2E(c)
	}
	var res vh.Result
	interval := time.Duration(c.IntervalMs) * time.Millisecond
	st := &stubTransport{failAt: c.FailAt}
	quit := make(chan struct{})
	done := make(chan struct{})
	start := time.Now()
	go func() {
		defer close(done)
		xmpp.VerifKeepalive(st, interval, quit)
	}()
	var quitAt time.Time
	if c.QuitAfter > 0 {
		time.Sleep(interval * time.Duration(c.QuitAfter) / 10)
		quitAt = time.Now()
		close(quit)
	}
	time.Sleep(time.Until(start.Add(interval * time.Duration(c.RunFor))))
	end := time.Now()
	pings, closes := st.snapshot()
	desc := fmt.Sprintf("%+v", c)
	res.NonTrivial = c.FailAt > 0 || c.QuitAfter > 0
	// never faster than the interval: n pings need at least (n-1) intervals (a ticker never fires early)
	maxPings := int(end.Sub(start)/interval) + 1
	if len(pings) > maxPings {
		res.Fail("too-many-pings", "%s: %d keepalives in %v, an interval of %v allows at most %d", desc, len(pings), end.Sub(start), interval, maxPings)
	}
	// the loop was started after `start` was read and a ticker never fires early: the n-th keepalive cannot be
	// attempted before n intervals have passed (monotonic clock on both sides)
	for i, p := range pings {
		if p.Sub(start) < time.Duration(i+1)*interval {
			res.Fail("keepalive-before-its-interval", "%s: keepalive %d attempted %v after the loop was started, the interval is %v", desc, i+1, p.Sub(start), interval)
			break
		}
	}
	if c.IntervalMs > 1000 {
		res.Label("interval-above-one-second")
	}
	switch {
	case c.FailAt > 0:
		res.Label("ping-failure")
		if len(pings) < c.FailAt {
			// liveness: give it the generous margin before complaining
			if !waitFor(vh.Margin(3*time.Second)+100*interval, func() bool { p, _ := st.snapshot(); return len(p) >= c.FailAt }) {
				res.Fail("t/keepalive-not-sent", "%s: only %d keepalives were attempted", desc, len(pings))
				return res
			}
		}
		waitFor(vh.Margin(2*time.Second), func() bool { _, cl := st.snapshot(); return len(cl) >= 1 })
		time.Sleep(4 * interval)
		pings, closes = st.snapshot()
		if len(closes) != 1 {
			res.Fail("close-count-after-ping-failure", "%s: keepalive %d failed; Close was called %d times, expected exactly once", desc, c.FailAt, len(closes))
		}
		if len(pings) > c.FailAt {
			res.Fail("ping-after-failure", "%s: %d keepalives were attempted after the failing one", desc, len(pings)-c.FailAt)
		}
		select {
		case <-done:
		case <-time.After(vh.Margin(2 * time.Second)):
			res.Fail("t/keepalive-loop-alive-after-failure", "%s: the keepalive loop did not return after the failed keepalive", desc)
		}
	case c.QuitAfter > 0:
		res.Label("session-end")
		select {
		case <-done:
		case <-time.After(vh.Margin(2 * time.Second)):
			res.Fail("t/keepalive-loop-alive-after-session-end", "%s: the keepalive loop did not return after the session ended", desc)
		}
		late := 0
		grace := 3 * interval
		if g := vh.Margin(100 * time.Millisecond); g > grace {
			grace = g // scheduling delays must not turn the one keepalive that may race with the end into an alarm
		}
		pings, _ = st.snapshot()
		for _, p := range pings {
			if p.After(quitAt.Add(grace)) {
				late++
			}
		}
		if late > 0 {
			res.Fail("ping-after-session-end", "%s: %d keepalives started later than 3 intervals after the session had ended", desc, late)
		}
		if len(closes) != 0 {
			res.Fail("close-without-failure", "%s: Close was called %d times although no keepalive failed", desc, len(closes))
		}
	default:
		res.Label("steady")
		if len(pings) == 0 {
			if !waitFor(vh.Margin(3*time.Second)+100*interval, func() bool { p, _ := st.snapshot(); return len(p) >= 1 }) {
				res.Fail("t/keepalive-not-sent", "%s: no keepalive within 100 intervals + margin", desc)
			}
		}
		close(quit)
		<-done
	}
	return res
}

// runC18E2E: a real Client whose transport is wrapped so that the k-th Ping fails (or never), against the scripted peer.
func runC18E2E(c c18Case) vh.Result {
	var res vh.Result
	res.Label("end-to-end")
	if c.StreamClose {
		res.Label("ended-by-stream-close")
	}
	if c.TLS {
		res.Label("over-starttls")
	}
	interval := time.Duration(c.IntervalMs) * time.Millisecond
	res.NonTrivial = true
	var pconn *peer.Conn
	established := make(chan struct{})
	established2 := make(chan struct{})
	cut := make(chan struct{})
	probe := make(chan struct{})
	const probeMsg = `<message xmlns="jabber:client" id="c18-probe" type="chat" from="a@b/c" to="user@localhost/res"><body>still there</body></message>`
	var addr string
	if c.WS {
		res.Label("over-websocket")
		wsrv, err := peer.ListenWS("xmpp", func(wc *peer.WSConn) {
			out := wc.WSNegotiate(&peer.Script{Mechs: []string{"PLAIN"}}, 10*time.Second)
			if !out.Established {
				return
			}
			close(established)
			go func() {
				select {
				case <-probe:
					wc.Send(probeMsg)
				case <-cut:
				}
				<-cut
				if c.StreamClose {
					wc.Send(`<close xmlns="` + peer.NSFraming + `"/>`) // the connection stays open: only the stream has ended
				} else {
					wc.DropTCP(3 * time.Second)
				}
			}()
			// keep reading, so that ping frames are answered
			for {
				if ev := wc.Recv(30 * time.Second); ev.Kind == "eof" || ev.Kind == "timeout" {
					return
				}
			}
		})
		if err != nil {
			res.Fail("harness", "listen: %v", err)
			return res
		}
		defer wsrv.Close()
		addr = wsrv.URL
	} else {
		srv, err := peer.Listen(func(pc *peer.Conn) {
			if c.HookFails && pc.Index == 0 {
				// the connection whose Connect fails in the application's hook: the server just keeps reading
				pc.Negotiate(&peer.Script{Mechs: []string{"PLAIN"}}, 10*time.Second)
				pc.Drain(20 * time.Second)
				return
			}
			if c.PriorDisconnect && pc.Index == 0 {
				// the earlier session: the server never answers the client's stream end, it just goes away
				if out := pc.Negotiate(&peer.Script{Mechs: []string{"PLAIN"}, OfferTLS: c.TLS, Cert: "valid"}, 10*time.Second); !out.Established {
					return
				}
				for {
					if ev := pc.NextElem(10 * time.Second); ev.Kind != "elem" {
						break
					}
				}
				pc.Close()
				return
			}
			if c.PingFailsLate && pc.Index == 1 {
				// the session the application sets up after the loss
				if out := pc.Negotiate(&peer.Script{Mechs: []string{"PLAIN"}}, 10*time.Second); !out.Established {
					return
				}
				close(established2)
				go func() {
					<-probe
					pc.Send(probeMsg)
				}()
				pc.Drain(30 * time.Second)
				return
			}
			pconn = pc
			out := pc.Negotiate(&peer.Script{Mechs: []string{"PLAIN"}, OfferTLS: c.TLS, Cert: "valid"}, 10*time.Second)
			if !out.Established {
				return
			}
			close(established)
			go func() {
				select {
				case <-probe:
					pc.Send(probeMsg)
				case <-cut:
				}
				<-cut
				if c.StreamClose {
					pc.Send("</stream:stream>") // the socket stays open: only the stream has ended
				} else {
					pc.HalfClose()
				}
			}()
			pc.Drain(30 * time.Second)
		})
		if err != nil {
			res.Fail("harness", "listen: %v", err)
			return res
		}
		defer srv.Close()
		addr = srv.Addr
	}
	cl, rec, _, err := newTestClientCfg(addr, clientOpt{Insecure: !c.TLS, Keepalive: interval})
	if err != nil {
		res.Fail("harness", "NewClient: %v", err)
		return res
	}
	wrap := &stubTransport{failAt: c.FailAt, inner: xmpp.VerifGetTransport(cl)}
	if c.PingFailsLate {
		wrap.failOnce, wrap.failStarted, wrap.failRelease = true, make(chan struct{}), make(chan struct{})
	}
	xmpp.VerifSetTransport(cl, wrap)
	var inHandler [2]int // keepalives attempted so far when the Disconnected handler was entered / left
	var handlerDone atomic.Bool
	if c.SlowHandler {
		res.Label("slow-disconnected-handler")
		cl.SetHandler(func(e xmpp.Event) error {
			err := rec.onEvent(e)
			if xmpp.VerifEventState(e) == xmpp.StateDisconnected && !handlerDone.Load() {
				p, _ := wrap.snapshot()
				inHandler[0] = len(p)
				time.Sleep(8 * interval)
				p, _ = wrap.snapshot()
				inHandler[1] = len(p)
				handlerDone.Store(true)
			}
			return err
		})
	}
	disc0 := 0
	if c.HookFails {
		res.Label("post-connect-hook-fails-first")
		cl.PostConnectHook = func() error { return errors.New("the application's hook fails") }
		if err := cl.Connect(); err == nil {
			res.Fail("harness-hook", "Connect returned nil although the PostConnectHook failed")
			return res
		}
		cl.PostConnectHook = nil
		time.Sleep(6 * interval)
		if p, _ := wrap.snapshot(); len(p) > 0 {
			res.Fail("keepalive-without-session", "%+v: Connect returned an error (the application's hook failed), yet %d keepalives were attempted in the 6 intervals that followed", c, len(p))
			return res
		}
	}
	if c.PriorDisconnect {
		res.Label("after-disconnect-in-flight")
		if err := cl.Connect(); err != nil {
			res.Fail("harness-prior", "prior Connect: %v", err)
			return res
		}
		go func() { _ = cl.Disconnect() }()
		if !waitFor(vh.Margin(5*time.Second), func() bool { return rec.count(xmpp.StateDisconnected) >= 1 }) {
			res.Fail("harness-prior", "the end of the prior session was not reported")
			return res
		}
		disc0 = rec.count(xmpp.StateDisconnected)
	}
	start := time.Now()
	if err := cl.Connect(); err != nil {
		res.Fail("harness-connect", "Connect: %v", err)
		return res
	}
	select {
	case <-established:
	case <-time.After(10 * time.Second):
		res.Fail("harness", "not established")
		return res
	}
	desc := fmt.Sprintf("%+v", c)
	wsBytes := func() (n int, bad string) {
		if c.WS {
			p, _ := wrap.snapshot() // ping frames are not visible to the peer: count the attempts
			return len(p), ""
		}
		for _, e := range pconn.Transcript() {
			if e.Dir == "recv" && e.Kind == "ws" {
				for _, ch := range e.Raw {
					if ch != '\n' {
						bad = e.Raw
					}
				}
				n += len(e.Raw)
			}
		}
		return
	}
	if c.LongIdle {
		res.Label("idle-for-seconds-after-a-keepalive")
		if err := wrap.Ping(); err != nil {
			res.Fail("harness-ping", "%s: Ping on a healthy session failed: %v", desc, err)
			return res
		}
		time.Sleep(5600 * time.Millisecond)
		if n := rec.count(xmpp.StateDisconnected); n > 0 {
			_, errs, _ := rec.snapshot()
			res.Fail("session-lost-after-a-keepalive", "%s: 5.6 s after a single keepalive on an otherwise idle, healthy session the session was reported lost (errors %v)", desc, errs)
			return res
		}
		close(probe)
		if !waitFor(vh.Margin(3*time.Second), func() bool {
			_, _, pk := rec.snapshot()
			for _, p := range pk {
				if _, id := packetID(p); id == "c18-probe" {
					return true
				}
			}
			return false
		}) {
			res.Fail("t/session-dead-after-a-keepalive", "%s: a message sent 5.6 s after a single keepalive was not routed", desc)
		}
		go func() { _ = cl.Disconnect() }()
		return res
	}
	if c.PingFailsLate {
		res.Label("ping-fails-after-reconnection")
		released := false
		defer func() {
			if !released {
				close(wrap.failRelease)
			}
		}()
		select {
		case <-wrap.failStarted:
		case <-time.After(vh.Margin(4*time.Second) + time.Duration(c.FailAt+100)*interval):
			res.Fail("t/keepalive-not-sent", "%s: keepalive %d was never attempted", desc, c.FailAt)
			return res
		}
		close(cut) // the connection goes away while that keepalive hangs
		if !waitFor(vh.Margin(5*time.Second), func() bool { return rec.count(xmpp.StateDisconnected) >= 1 }) {
			res.Fail("t/loss-not-reported", "%s: the connection was cut while a keepalive was hanging; no Disconnected event", desc)
			return res
		}
		if err := cl.Connect(); err != nil {
			res.Fail("harness-reconnect", "%s: reconnecting failed: %v", desc, err)
			return res
		}
		select {
		case <-established2:
		case <-time.After(10 * time.Second):
			res.Fail("harness", "second session not established")
			return res
		}
		released = true
		close(wrap.failRelease) // now the old keepalive learns that its write failed
		time.Sleep(1300 * time.Millisecond)
		if n := rec.count(xmpp.StateDisconnected); n > 1 {
			_, errs, _ := rec.snapshot()
			res.Fail("new-session-ended-by-old-keepalive", "%s: the keepalive of the lost session failed after the application had reconnected, and the new session was reported lost (%d Disconnected events, errors %v)", desc, n, errs)
			return res
		}
		close(probe)
		if !waitFor(vh.Margin(3*time.Second), func() bool {
			_, _, pk := rec.snapshot()
			for _, p := range pk {
				if _, id := packetID(p); id == "c18-probe" {
					return true
				}
			}
			return false
		}) {
			res.Fail("t/new-session-dead-after-old-keepalive", "%s: a message sent on the new session 1.3 s after the old keepalive had failed was not routed", desc)
		}
		return res
	}
	if c.FailAt > 0 {
		res.Label("ping-failure")
		// the failing keepalive must close the connection, and the loss must be reported once
		ok := waitFor(vh.Margin(4*time.Second)+time.Duration(c.FailAt+100)*interval, func() bool {
			_, errs, _ := rec.snapshot()
			return rec.count(xmpp.StateDisconnected) >= 1 && len(errs) >= 1
		})
		_, closes := wrap.snapshot()
		if len(closes) == 0 {
			res.Fail("t/no-close-after-ping-failure", "%s: keepalive %d could not be written but the transport was not closed", desc, c.FailAt)
		} else if !ok {
			res.Fail("t/loss-not-reported-after-ping-failure", "%s: the transport was closed after the failed keepalive but no error callback / Disconnected event followed", desc)
		}
		time.Sleep(4 * interval)
		pings, _ := wrap.snapshot()
		if len(pings) > c.FailAt {
			res.Fail("ping-after-failure", "%s: %d keepalives after the failing one", desc, len(pings)-c.FailAt)
		}
		if n := rec.count(xmpp.StateDisconnected); n > 1 {
			res.Fail("disconnected-twice", "%s: %d Disconnected events", desc, n)
		}
		return res
	}
	// steady phase: keepalives arrive, each a single newline, never faster than the interval
	time.Sleep(interval * time.Duration(c.RunFor))
	if c.PriorDisconnect {
		// outlast the Close of the prior session, then make sure keepalives still flow
		time.Sleep(time.Until(start.Add(1300 * time.Millisecond)))
		k1, _ := wsBytes()
		if !waitFor(vh.Margin(3*time.Second)+20*interval, func() bool { k, _ := wsBytes(); return k > k1 }) && rec.count(xmpp.StateDisconnected) == disc0 {
			res.Fail("t/keepalive-stopped", "%s: no further keepalive reached the server 1.3 s into the new session (%d before)", desc, k1)
		}
	}
	n, bad := wsBytes()
	el := time.Since(start)
	if bad != "" {
		res.Fail("keepalive-not-a-newline", "%s: white-space keepalive %q is not made of single newlines", desc, bad)
	}
	if max := int(el/interval) + 1; n > max {
		res.Fail("too-many-pings", "%s: %d keepalive bytes in %v (interval %v allows %d)", desc, n, el, interval, max)
	}
	if n == 0 {
		if !waitFor(vh.Margin(3*time.Second)+100*interval, func() bool { k, _ := wsBytes(); return k >= 1 }) {
			res.Fail("t/keepalive-not-sent", "%s: no keepalive reached the server within 100 intervals + margin", desc)
		}
	}
	// the keepalives did no harm: the session is still up and a stanza sent now is routed
	if n := rec.count(xmpp.StateDisconnected); n > disc0 {
		_, errs, _ := rec.snapshot()
		res.Fail("session-lost-while-keepalives-flow", "%s: the server did nothing but read, yet the session was reported lost after %v (errors %v)", desc, time.Since(start), errs)
		return res
	}
	close(probe)
	if !waitFor(vh.Margin(3*time.Second), func() bool {
		_, _, pk := rec.snapshot()
		for _, p := range pk {
			if _, id := packetID(p); id == "c18-probe" {
				return true
			}
		}
		return false
	}) {
		_, errs, _ := rec.snapshot()
		res.Fail("t/session-dead-after-keepalives", "%s: a message sent after %d keepalive bytes was not routed (errors %v, %d Disconnected events)", desc, n, errs, rec.count(xmpp.StateDisconnected))
		return res
	}
	// session end: cut the connection, keepalives must stop
	close(cut)
	waitFor(vh.Margin(5*time.Second), func() bool { return rec.count(xmpp.StateDisconnected) >= disc0+1 })
	time.Sleep(3 * interval)
	pings1, _ := wrap.snapshot()
	time.Sleep(5 * interval)
	pings2, _ := wrap.snapshot()
	if c.SlowHandler {
		if !waitFor(vh.Margin(5*time.Second)+10*interval, handlerDone.Load) {
			res.Fail("t/handler-not-run", "%s: the Disconnected handler did not run to its end", desc)
		} else if n := inHandler[1] - inHandler[0]; n > 1 {
			res.Fail("keepalive-while-loss-is-handled", "%s: %d keepalives were attempted while the Disconnected handler was running (8 intervals); the session had ended before the handler was called", desc, n)
		}
	}
	if len(pings2) > len(pings1) {
		res.Fail("ping-after-session-end", "%s: %d keepalives were attempted after the loss had been reported", desc, len(pings2)-len(pings1))
	}
	go func() { _ = cl.Disconnect() }()
	return res
}

var c18 = vh.Define(&vh.Def[c18Case]{
	Property: "C18", Name: "keepalive",
	Rule: "interval 2-40 ms (bare loop, steady: in a quarter of the cases 1001-1999 ms, watched for two intervals) x {k-th keepalive write fails, k in 1-10 | session ends after a generated fraction of the interval (1-100 tenths) | steady} x {bare keepalive loop on a stub Transport | real Client whose Transport is wrapped (Ping fails at k) against the scripted peer, the session ending by a cut of the connection or by </stream:stream> on a connection that stays open, over clear-text TCP, STARTTLS or WebSocket (ping frames; attempts counted in the wrapped Transport), in a third of the steady TCP cases after an earlier session of the same Client whose Disconnect is still in flight (the server never answers the stream end) and with the new session watched for 1.3 s, in half of the clear-text ping-failure cases the failing keepalive hangs until the connection has been cut, the loss reported and a new session set up, which must then survive it, in a quarter of the steady clear-text cases the application's PostConnectHook fails at a first Connect (no keepalive may follow) before the session under observation is set up, the application's Disconnected handler returning at once or after 8 intervals (at most one keepalive may be attempted while it runs)}; oracle: n keepalives never take less than (n-1) intervals (a ticker never fires early: sound upper bound on the rate), on the bare loop the n-th keepalive is never attempted earlier than n intervals after the loop was started, at least one within 100 intervals + 3 s, each is a single newline on the wire, after the failing keepalive Close is called exactly once, no further keepalive follows, the loop returns and (end to end) the loss is reported by one error callback and one Disconnected event, no keepalive starts later than max(3 intervals, 100 ms) after the session ended and the loop returns; non-trivial = a failure index or an end time was drawn, or the end-to-end variant",
	Quick: 160, Thorough: 2400, Journal: true,
	Gen: genC18, Run: runC18,
})

func TestC18_keepalive(t *testing.T) { c18.Check(t) }

// TestC18_longidle: two fixed cases (clear text, STARTTLS), run by the first shard only: they take six seconds each.
func TestC18_longidle(t *testing.T) {
	if sh, _ := vh.Shard(); sh != 0 {
		return
	}
	for _, tls := range []bool{false, true} {
		c18.RunCase(t, c18Case{IntervalMs: 3600000, RunFor: 1, EndToEnd: true, TLS: tls, LongIdle: true})
	}
}
func TestC18_Regress(t *testing.T)   { vh.Regress(t, "C18") }
