package harness

import (
	"bytes"
	"encoding/xml"
	"strings"

	"gosrc.io/xmpp/stanza"
)

const clientStreamHeader = `<?xml version='1.0'?><stream:stream xmlns='jabber:client' xmlns:stream='http://etherx.jabber.org/streams' id='s1' version='1.0'>`
const componentStreamHeader = `<?xml version='1.0'?><stream:stream xmlns='jabber:component:accept' xmlns:stream='http://etherx.jabber.org/streams' id='s1'>`

func xmlEscAttr(s string) string {
	var b bytes.Buffer
	_ = xml.EscapeText(&b, []byte(s))
	return b.String()
}

// parseTop parses one top-level element (given as XML text) the way the
// receive loops do: NextPacket on a decoder positioned after a stream header.
func parseTop(header, elem string) (stanza.Packet, error) {
	d := xml.NewDecoder(strings.NewReader(header + elem))
	if _, err := stanza.InitStream(d); err != nil {
		return nil, err
	}
	return stanza.NextPacket(d)
}
