package harness

// C10 — stream management: sent stanzas are held until acknowledged and
// retransmitted in order. The scripted peer keeps the wire truth: every
// stanza it receives, in order; the harness compares the client's queue and
// the retransmissions with a model driven by that truth.

import (
	"sync/atomic"
	"fmt"
	"strings"
	"sync"
	"testing"
	"time"

	xmpp "gosrc.io/xmpp"
	"gosrc.io/xmpp/stanza"
	"pgregory.net/rapid"
	"verifharness/peer"
	"verifharness/vh"
)

type c10Op struct {
	Op string `json:"op"` // send sendraw sendiq sendr peer-r peer-a burst
	// peer-a: H is computed as R+Rel where R is the number of stanzas the peer has received so far (clamped at 0); Abs overrides when >= 0
	Rel int `json:"rel,omitempty"`
	Abs int `json:"abs,omitempty"`
	// burst: G goroutines x K sends each
	G int `json:"g,omitempty"`
	K int `json:"k,omitempty"`
}

type c10Case struct {
	Ops []c10Op `json:"ops"`
}

func genC10(t *rapid.T) c10Case {
	var c c10Case
	n := rapid.IntRange(1, 14).Draw(t, "n")
	for i := 0; i < n; i++ {
		op := c10Op{Abs: -1}
		switch rapid.IntRange(0, 11).Draw(t, "opClass") {
		case 0, 1, 2:
			op.Op = "send"
		case 3, 4:
			op.Op = "sendraw"
		case 5:
			op.Op = "sendiq"
		case 6:
			op.Op = "sendr"
		case 7:
			op.Op = "peer-r"
		case 8, 9, 10:
			op.Op = "peer-a"
			switch rapid.IntRange(0, 5).Draw(t, "hClass") {
			case 0:
				op.Rel = 0 // everything received so far
			case 1:
				op.Rel = -rapid.IntRange(1, 4).Draw(t, "back")
			case 2:
				op.Rel = rapid.IntRange(1, 3).Draw(t, "ahead") // more than was sent
			case 3:
				op.Abs = 0
			case 4:
				op.Abs = rapid.IntRange(0, 5).Draw(t, "abs") // possibly stale
			default:
				op.Rel = -1
			}
		default:
			op.Op = "burst"
			op.G = rapid.IntRange(2, 6).Draw(t, "g")
			op.K = rapid.IntRange(1, 8).Draw(t, "k")
		}
		c.Ops = append(c.Ops, op)
	}
	return c
}

type c10Wire struct {
	mu     sync.Mutex
	elems  []peer.Event // every element received after establishment
	notify chan struct{}
}

func (w *c10Wire) add(e peer.Event) {
	w.mu.Lock()
	w.elems = append(w.elems, e)
	w.mu.Unlock()
	select {
	case w.notify <- struct{}{}:
	default:
	}
}

func (w *c10Wire) snapshot() []peer.Event {
	w.mu.Lock()
	defer w.mu.Unlock()
	return append([]peer.Event(nil), w.elems...)
}

func isWireStanza(e peer.Event) bool {
	return e.Kind == "elem" && (e.Name.Local == "message" || e.Name.Local == "presence" || e.Name.Local == "iq")
}

var c10Serial atomic.Int64

func runC10(c c10Case) vh.Result {
	var res vh.Result
	wire := &c10Wire{notify: make(chan struct{}, 1)}
	toPeer := make(chan string, 64)
	ready := make(chan *peer.Outcome, 1)
	// Every case has its own stream-management id: the library reports (verif hook) when it has finished processing an
	// <a/> of that session, which is the only trace an <a/> leaves that changes nothing.
	smID := fmt.Sprintf("sm-c10-%d", c10Serial.Add(1))
	var acksDone, acksSent atomic.Int64
	xmpp.VerifSetPoint(func(point, id string) {
		if point == "route.smanswer.done" && id == smID {
			acksDone.Add(1)
		}
	})
	script := &peer.Script{Mechs: []string{"PLAIN"}, OfferSM: true, ExpectEnable: true, SMId: smID}
	srv, err := peer.Listen(func(pc *peer.Conn) {
		out := pc.Negotiate(script, 10*time.Second)
		ready <- out
		if !out.Established {
			return
		}
		if out.First != nil {
			wire.add(*out.First)
		}
		// writer: sends what the test asks for
		stop := make(chan struct{})
		go func() {
			for {
				select {
				case s := <-toPeer:
					pc.Send(s)
				case <-stop:
					return
				}
			}
		}()
		defer close(stop)
		for {
			ev := pc.NextElem(30 * time.Second)
			switch ev.Kind {
			case "elem":
				wire.add(ev)
			case "close":
				pc.Send("</stream:stream>")
				pc.GracefulClose(time.Second)
				return
			case "eof", "error", "timeout":
				return
			}
		}
	})
	if err != nil {
		res.Fail("harness", "listen: %v", err)
		return res
	}
	defer srv.Close()
	cl, _, _, err := newTestClientCfg(srv.Addr, clientOpt{Insecure: true, SM: true})
	if err != nil {
		res.Fail("harness", "NewClient: %v", err)
		return res
	}
	if err := cl.Connect(); err != nil {
		res.Fail("harness-connect", "Connect: %v", err)
		return res
	}
	defer func() { go func() { _ = cl.Disconnect() }() }()
	select {
	case o := <-ready:
		if !o.Established || o.EnableReq == nil {
			res.Fail("harness-not-established", "SM session not established: %v", o.Steps)
			return res
		}
	case <-time.After(10 * time.Second):
		res.Fail("harness", "peer not ready")
		return res
	}

	// model state
	type held struct {
		idx     int
		payload string
	}
	var queue []held // what must be held by the client
	stanzasSeen := 0 // R: stanzas the peer has received (wire truth), consumed from wire.elems
	consumed := 0    // how many wire elements the model has consumed
	nextID := 0
	desc := func() string { return fmt.Sprintf("history %+v", c.Ops) }

	// waitWire waits until at least n elements beyond `consumed` arrived.
	waitWire := func(n int) bool {
		return waitFor(vh.Margin(4*time.Second), func() bool { return len(wire.snapshot())-consumed >= n })
	}
	// absorb consumes newly arrived wire elements into the model; returns them
	absorb := func() []peer.Event {
		all := wire.snapshot()
		fresh := all[consumed:]
		consumed = len(all)
		for _, e := range fresh {
			if isWireStanza(e) {
				stanzasSeen++
				queue = append(queue, held{idx: stanzasSeen, payload: e.Raw})
			}
		}
		return fresh
	}
	clientQueue := func() []string {
		q := cl.Session.SMState.UnAckQueue
		if q == nil {
			return nil
		}
		q.RWMutex.RLock()
		defer q.RWMutex.RUnlock()
		var out []string
		for _, u := range q.Uslice {
			if u.Stz == xmpp.InitialPresence {
				continue // see notInitial
			}
			out = append(out, u.Stz)
		}
		return out
	}
	// The initial presence written by Connect is a stanza on the wire and counts for the server's h, but it was not
	// accepted by a Send/SendRaw call of the application: whether the client holds and retransmits it is not
	// asserted. It is filtered from both sides of every comparison.
	notInitial := func(raw string) bool { return raw != xmpp.InitialPresence }
	checkQueue := func(step int, op c10Op) {
		var want []string
		for _, h := range queue {
			if notInitial(h.payload) {
				want = append(want, h.payload)
			}
		}
		// an <a/> that acknowledges everything leaves no trace on the wire: give the client time to process it
		// (stable-condition poll; the comparison below reports what is left if it never converges)
		waitFor(vh.Margin(3*time.Second), func() bool {
			return strings.Join(clientQueue(), "\n") == strings.Join(want, "\n")
		})
		got := clientQueue()
		if len(got) != len(want) {
			key := "queue-differs"
			for _, g := range got {
				if strings.HasPrefix(g, "<a ") || strings.HasPrefix(g, "<r ") {
					key = "nonza-held"
				}
			}
			res.Fail(key, "step %d (%s): the client holds %d entries %q, the unacknowledged wire stanzas are %d %q; %s", step, op.Op, len(got), got, len(want), want, desc())
			return
		}
		for i := range got {
			if got[i] != want[i] {
				res.Fail("queue-differs", "step %d (%s): held entry %d is %q, expected %q; %s", step, op.Op, i, got[i], want[i], desc())
				return
			}
		}
	}
	// the initial <presence/> written by Connect is a stanza on the wire but is not sent through Send: it is not held.
	// Consume it without adding it to the model queue, but it does count for the server's h.
	waitWire(1)
	absorb()
	initialStanzas := stanzasSeen

	ackWithSuffix, ackStale, ackAhead, sawPeerR := false, false, false, false
	sends := 0
	for step, op := range c.Ops {
		if len(res.Violations) > 0 {
			break
		}
		switch op.Op {
		case "send", "sendraw", "sendiq":
			nextID++
			sends++
			id := fmt.Sprintf("c10-%d", nextID)
			var err error
			switch op.Op {
			case "send":
				m := stanza.NewMessage(stanza.Attrs{To: "a@localhost", Id: id, Type: stanza.MessageTypeChat})
				m.Body = "b & <" + id + ">"
				err = cl.Send(m)
			case "sendraw":
				err = cl.SendRaw("<message to='a@localhost' id='" + id + "'><body>raw</body></message>")
			case "sendiq":
				iq, _ := stanza.NewIQ(stanza.Attrs{Type: stanza.IQTypeGet, Id: id, To: "localhost"})
				iq.Payload = &stanza.Version{}
				_, err = cl.SendIQ(ctxShort(), iq)
			}
			if err != nil {
				res.Fail("send-error", "step %d: %s failed: %v", step, op.Op, err)
				break
			}
			if !waitWire(1) {
				res.Fail("t/sent-stanza-not-on-wire", "step %d: %s returned nil but the stanza did not reach the peer", step, op.Op)
				break
			}
			absorb()
			checkQueue(step, op)
		case "sendr":
			if err := cl.Send(stanza.SMRequest{}); err != nil {
				res.Fail("send-error", "step %d: Send(SMRequest) failed: %v", step, err)
				break
			}
			waitWire(1)
			absorb()
			checkQueue(step, op)
		case "peer-r":
			sawPeerR = true
			toPeer <- "<r xmlns='urn:xmpp:sm:3'/>"
			if !waitWire(1) {
				res.Fail("t/r-not-answered", "step %d: <r/> from the server was not answered", step)
				break
			}
			time.Sleep(vh.Margin(5 * time.Millisecond))
			fresh := absorb()
			for _, e := range fresh {
				if isWireStanza(e) {
					res.Fail("stanza-after-r", "step %d: a stanza was written in reaction to <r/>: %s", step, e.Raw)
				}
			}
			checkQueue(step, op)
		case "peer-a":
			// the server's h counts every stanza it received on the session, including the initial presence
			r := stanzasSeen
			h := r + op.Rel
			if op.Abs >= 0 {
				h = op.Abs
			}
			if h < 0 {
				h = 0
			}
			// model: the h oldest stanzas of the session are delivered
			var pending []held
			for _, q := range queue {
				if q.idx > h {
					pending = append(pending, q)
				}
			}
			if len(pending) > 0 && len(pending) < len(queue) {
				ackWithSuffix = true
			}
			if h > r {
				ackAhead = true
			}
			if h < r-len(queue) {
				ackStale = true
			}
			queue = nil
			toPeer <- fmt.Sprintf("<a xmlns='urn:xmpp:sm:3' h='%d'/>", h)
			acksSent.Add(1)
			// the client has processed it (and written whatever it retransmits) before the model moves on
			if !waitFor(vh.Margin(4*time.Second), func() bool { return acksDone.Load() >= acksSent.Load() }) {
				res.Fail("t/ack-not-processed", "step %d: <a h=%d/> was not processed within the margin; %s", step, h, desc())
				break
			}
			firm := 0 // pending stanzas other than the initial presence
			for _, p := range pending {
				if notInitial(p.payload) {
					firm++
				}
			}
			expect := 0
			if firm > 0 {
				expect = firm + 1
			}
			ok := waitWire(expect)
			if firm == 0 && len(pending) > 0 {
				// only the initial presence is unacknowledged: a client that holds it sends it again with an <r/>; wait
				// for that, so that the late processing of this <a/> cannot overlap with the next operation
				waitFor(vh.Margin(400*time.Millisecond), func() bool {
					for _, e := range wire.snapshot()[consumed:] {
						if e.Name.Local == "r" {
							return true
						}
					}
					return false
				})
			}
			// settle: the <a/> is processed on its own goroutine; wait until wire and queue have been stable for a while
			// (anything beyond the expected elements shows up here)
			lastSig, lastChange := "", time.Now()
			waitFor(vh.Margin(2*time.Second), func() bool {
				sig := fmt.Sprint(len(wire.snapshot()), clientQueue())
				if sig != lastSig {
					lastSig, lastChange = sig, time.Now()
				}
				return time.Since(lastChange) > vh.Margin(25*time.Millisecond)
			})
			fresh := absorb()                          // retransmitted stanzas re-enter the model queue with their new wire index
			var gotStanzas []string
			nReq := 0
			lastIsReq := false
			for _, e := range fresh {
				lastIsReq = false
				if isWireStanza(e) {
					if notInitial(e.Raw) {
						gotStanzas = append(gotStanzas, e.Raw)
					}
				} else if e.Name.Local == "r" {
					nReq++
					lastIsReq = true
				}
			}
			var wantStanzas []string
			for _, p := range pending {
				if notInitial(p.payload) {
					wantStanzas = append(wantStanzas, p.payload)
				}
			}
			d := fmt.Sprintf("step %d: <a h=%d/> after the server had received %d stanzas (%d of them before the first Send); held before: %d", step, h, r, initialStanzas, len(pending)+0)
			if !ok && firm > 0 {
				res.Fail("t/retransmission-missing", "%s: expected %d stanzas to be sent again followed by <r/>, got %q (+%d <r/>); %s", d, len(pending), gotStanzas, nReq, desc())
				break
			}
			if strings.Join(gotStanzas, "\n") != strings.Join(wantStanzas, "\n") {
				key := "retransmission-wrong"
				if len(wantStanzas) == 0 {
					key = "acked-stanza-retransmitted"
				}
				res.Fail(key, "%s: the client wrote %q, expected exactly the unacknowledged stanzas %q in that order; %s", d, gotStanzas, wantStanzas, desc())
				break
			}
			if firm > 0 && (nReq != 1 || !lastIsReq) {
				res.Fail("retransmission-without-request", "%s: %d acknowledgement requests followed the retransmission (expected exactly one, last)", d, nReq)
			}
			if len(pending) == 0 && nReq != 0 { // (when only the initial presence is pending either behaviour is accepted)
				res.Fail("request-without-retransmission", "%s: nothing was unacknowledged but the client wrote %d <r/>", d, nReq)
			}
			checkQueue(step, op)
		case "burst":
			var wg sync.WaitGroup
			total := op.G * op.K
			errs := make(chan error, total)
			for g := 0; g < op.G; g++ {
				wg.Add(1)
				go func(g int) {
					defer wg.Done()
					for k := 0; k < op.K; k++ {
						id := fmt.Sprintf("c10-b%d-%d-%d", step, g, k)
						var err error
						if (g+k)%2 == 0 {
							m := stanza.NewMessage(stanza.Attrs{To: "a@localhost", Id: id})
							m.Body = strings.Repeat("x", 10+k*50)
							err = cl.Send(m)
						} else {
							err = cl.SendRaw("<message to='a@localhost' id='" + id + "'><body>" + strings.Repeat("y", 10+g*30) + "</body></message>")
						}
						if err != nil {
							errs <- err
						}
					}
				}(g)
			}
			wg.Wait()
			sends += total
			if len(errs) > 0 {
				res.Fail("send-error", "step %d: concurrent sends failed: %v", step, <-errs)
				break
			}
			if !waitWire(total) {
				res.Fail("t/sent-stanza-not-on-wire", "step %d: %d concurrent sends returned nil but only %d elements reached the peer", step, total, len(wire.snapshot())-consumed)
				break
			}
			absorb()
			// concurrent senders: the order on the wire need not be the queue order; compare as multisets and re-order the model like the client
			got := clientQueue()
			var firmQ, initQ []held
			for _, q := range queue {
				if notInitial(q.payload) {
					firmQ = append(firmQ, q)
				} else {
					initQ = append(initQ, q)
				}
			}
			if len(got) != len(firmQ) {
				res.Fail("queue-differs-concurrent", "step %d: after %d concurrent sends the client holds %d entries, %d stanzas are unacknowledged on the wire", step, total, len(got), len(firmQ))
				break
			}
			cnt := map[string]int{}
			for _, g := range got {
				cnt[g]++
			}
			for _, q := range firmQ {
				cnt[q.payload]--
			}
			// the N oldest stanzas "sent on the session" are the N oldest on the wire: the held order must be the wire order
			for i := range got {
				if got[i] != firmQ[i].payload {
					res.Fail("queue-order-differs-from-wire", "step %d: after %d concurrent sends held entry %d is %s but stanza %d on the wire is %s: a partial acknowledgement would discard the wrong stanza", step, total, i, trunc(got[i], 70), i, trunc(firmQ[i].payload, 70))
					break
				}
			}
			bad := false
			for k, v := range cnt {
				if v != 0 {
					res.Fail("queue-differs-concurrent", "step %d: held entries and wire stanzas differ for %q (%+d)", step, trunc(k, 80), v)
					bad = true
					break
				}
			}
			if bad {
				break
			}
			// adopt the client's payload order for the model (retransmission order = queue order), keeping the wire indices in increasing order
			nq := append([]held(nil), initQ...)
			for i, g := range got {
				nq = append(nq, held{idx: firmQ[i].idx, payload: g})
			}
			queue = nq
		}
	}
	res.NonTrivial = (sends >= 2 && (ackWithSuffix || sawPeerR)) || ackStale || ackAhead
	if ackWithSuffix {
		res.Label("ack-with-unacked-suffix")
	}
	if ackStale {
		res.Label("stale-ack")
	}
	if ackAhead {
		res.Label("ack-beyond-sent")
	}
	if sawPeerR {
		res.Label("server-r")
	}
	_ = xmpp.StateDisconnected
	return res
}

var c10 = vh.Define(&vh.Def[c10Case]{
	Property: "C10", Name: "smqueue",
	Rule: "outbound histories of 1-14 operations over Send(message), SendRaw(stanza), SendIQ, Send(SMRequest), <r/> from the peer (answered through Send), <a h=N/> from the peer with N drawn relative to the number R of stanzas the peer has received (R, R-k, R+k, 0, small absolute = stale or repeated) and bursts of 2-6 goroutines x 1-8 concurrent Send/SendRaw; real Client with stream management against the scripted peer, which records every element in the order received (wire truth; a retransmission is a new wire stanza); model: after <a h=N/> the entries with wire index <= N are discarded, the rest must arrive again in order followed by exactly one <r/> (nothing at all when nothing is left), and the client's queue (Session.SMState.UnAckQueue) must equal the unacknowledged wire stanzas after every step; <r/> and <a/> are never held; after a burst the queue must hold exactly the wire stanzas in wire order; non-trivial = >= 2 sends with a partial acknowledgement or a server <r/>, or a stale / too-large acknowledgement",
	Quick: 1200, Thorough: 40000, Journal: true,
	Gen: genC10, Run: runC10,
})

func TestC10_smqueue(t *testing.T) { c10.Check(t) }
func TestC10_Regress(t *testing.T) { vh.Regress(t, "C10") }
