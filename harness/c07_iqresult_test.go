package harness

// C07 — IQ responses reach the SendIQ caller exactly once; duplicates and
// races are harmless. The harness owns the schedule at two yield points
// compiled in under the verif tag ("sendiq.sent": between the write of the
// request and the registration of the pending route; "route.iqresult.found":
// after a pending entry was found for a response, before it is consumed), so
// the logical races are generated deterministically as part of the history.

import (
	"context"
	"fmt"
	"runtime/debug"
	"strings"
	"sync"
	"testing"
	"time"

	xmpp "gosrc.io/xmpp"
	"gosrc.io/xmpp/stanza"
	"pgregory.net/rapid"
	"verifharness/vh"
)

type c07Op struct {
	Op   string `json:"op"` // sendiq deliver read cancel release foreign
	Req  int    `json:"req"`
	Park bool   `json:"park,omitempty"` // sendiq: park at sendiq.sent; deliver: park at route.iqresult.found
	// Early (sendiq): the response is routed while the request is being written - the stub transport delivers it from
	// inside Write, before Write returns (independent of the yield points)
	Early bool `json:"early,omitempty"`
	Kind string `json:"kind,omitempty"` // deliver: result | error
	Gate int    `json:"gate,omitempty"` // release: index into the list of parked goroutines (modulo)
}

type c07Case struct {
	Entity string   `json:"entity"` // client component
	IDs    []string `json:"ids"`    // id of request i (clashes allowed)
	Ops    []c07Op  `json:"ops"`
}

func genC07(t *rapid.T) c07Case {
	var c c07Case
	c.Entity = rapid.SampledFrom([]string{"client", "client", "component"}).Draw(t, "entity")
	nreq := rapid.IntRange(1, 4).Draw(t, "nreq")
	for i := 0; i < nreq; i++ {
		id := fmt.Sprintf("q%d", i)
		if i > 0 && rapid.IntRange(0, 7).Draw(t, "clash") == 0 {
			id = c.IDs[rapid.IntRange(0, i-1).Draw(t, "clashWith")]
		}
		c.IDs = append(c.IDs, id)
	}
	kind := func() string { return rapid.SampledFrom([]string{"result", "error"}).Draw(t, "kind") }
	for i := 0; i < nreq; i++ {
		// one of the race templates, or free-form
		switch rapid.IntRange(0, 6).Draw(t, "template") {
		case 6: // the response overtakes the return of the write
			c.Ops = append(c.Ops, c07Op{Op: "sendiq", Req: i, Early: true, Kind: kind()}, c07Op{Op: "read", Req: i})
			if rapid.Bool().Draw(t, "dupAfterEarly") {
				c.Ops = append(c.Ops, c07Op{Op: "deliver", Req: i, Kind: kind()}, c07Op{Op: "read", Req: i})
			}
		case 0: // response processed between write and registration
			c.Ops = append(c.Ops, c07Op{Op: "sendiq", Req: i, Park: true}, c07Op{Op: "deliver", Req: i, Kind: kind()}, c07Op{Op: "release", Gate: 0}, c07Op{Op: "read", Req: i})
		case 1: // two responses both past the lookup
			c.Ops = append(c.Ops, c07Op{Op: "sendiq", Req: i}, c07Op{Op: "deliver", Req: i, Kind: kind(), Park: true}, c07Op{Op: "deliver", Req: i, Kind: kind(), Park: true},
				c07Op{Op: "release", Gate: rapid.IntRange(0, 1).Draw(t, "g")}, c07Op{Op: "release", Gate: 0}, c07Op{Op: "read", Req: i}, c07Op{Op: "read", Req: i})
		case 2: // delivery to a receiver that never reads, then cancellation
			c.Ops = append(c.Ops, c07Op{Op: "sendiq", Req: i}, c07Op{Op: "deliver", Req: i, Kind: kind()})
			if rapid.Bool().Draw(t, "cancel") {
				c.Ops = append(c.Ops, c07Op{Op: "cancel", Req: i})
			}
		case 3: // plain request / response, then a duplicate
			c.Ops = append(c.Ops, c07Op{Op: "sendiq", Req: i}, c07Op{Op: "deliver", Req: i, Kind: kind()}, c07Op{Op: "read", Req: i}, c07Op{Op: "deliver", Req: i, Kind: kind()}, c07Op{Op: "read", Req: i})
		default:
			n := rapid.IntRange(1, 6).Draw(t, "nfree")
			c.Ops = append(c.Ops, c07Op{Op: "sendiq", Req: i, Park: rapid.IntRange(0, 3).Draw(t, "park") == 0})
			for k := 0; k < n; k++ {
				switch rapid.IntRange(0, 5).Draw(t, "free") {
				case 0, 1:
					c.Ops = append(c.Ops, c07Op{Op: "deliver", Req: rapid.IntRange(0, i).Draw(t, "req"), Kind: kind(), Park: rapid.IntRange(0, 2).Draw(t, "park") == 0})
				case 2:
					c.Ops = append(c.Ops, c07Op{Op: "read", Req: rapid.IntRange(0, i).Draw(t, "req")})
				case 3:
					c.Ops = append(c.Ops, c07Op{Op: "cancel", Req: rapid.IntRange(0, i).Draw(t, "req")})
				case 4:
					c.Ops = append(c.Ops, c07Op{Op: "release", Gate: rapid.IntRange(0, 3).Draw(t, "gate")})
				default:
					c.Ops = append(c.Ops, c07Op{Op: "foreign", Kind: kind()})
				}
			}
		}
	}
	return c
}

type c07Gate struct {
	point, id string
	arrived   chan struct{}
	open      chan struct{}
	opened    bool
	assigned  bool
}

type c07Req struct {
	id       string
	ctx      context.Context
	cancel   context.CancelFunc
	started  bool
	done     chan struct{} // SendIQ returned
	ch       chan stanza.IQ
	err      error
	got      []stanza.IQ
	closed   bool
	canceled bool
	written  bool
}

type c07Delivery struct {
	req     int
	id      string
	marker  string // unique marker carried in the response (From)
	done    chan struct{}
	panicv  string
	started time.Time
}

func runC07(c c07Case) vh.Result {
	var res vh.Result
	var mu sync.Mutex
	var gates []*c07Gate // in creation order
	pendingParks := map[string][]*c07Gate{}
	xmpp.VerifSetPoint(func(point, id string) {
		mu.Lock()
		key := point + "|" + id
		l := pendingParks[key]
		if len(l) == 0 {
			mu.Unlock()
			return
		}
		g := l[0]
		pendingParks[key] = l[1:]
		g.assigned = true
		mu.Unlock()
		close(g.arrived)
		<-g.open
	})
	defer xmpp.VerifSetPoint(nil)
	newGate := func(point, id string) *c07Gate {
		g := &c07Gate{point: point, id: id, arrived: make(chan struct{}), open: make(chan struct{})}
		mu.Lock()
		gates = append(gates, g)
		pendingParks[point+"|"+id] = append(pendingParks[point+"|"+id], g)
		mu.Unlock()
		return g
	}
	unpark := func(g *c07Gate) { // withdraw a park request that was never reached
		mu.Lock()
		key := g.point + "|" + g.id
		l := pendingParks[key]
		for i := range l {
			if l[i] == g {
				pendingParks[key] = append(l[:i:i], l[i+1:]...)
				break
			}
		}
		mu.Unlock()
	}
	openGate := func(g *c07Gate) {
		mu.Lock()
		if !g.opened {
			g.opened = true
			close(g.open)
		}
		mu.Unlock()
	}

	// system under test
	var ordinary []stanza.IQ // responses seen by the ordinary (catch-all) route
	router := xmpp.NewRouter()
	router.NewRoute().HandlerFunc(func(s xmpp.Sender, p stanza.Packet) {
		if iq, ok := p.(*stanza.IQ); ok {
			mu.Lock()
			ordinary = append(ordinary, *iq)
			mu.Unlock()
		}
	})
	st := &stubTransport{}
	var sender xmpp.Sender
	if c.Entity == "client" {
		cfg := &xmpp.Config{TransportConfiguration: xmpp.TransportConfiguration{Address: "127.0.0.1:1", Domain: "localhost"}, Jid: "user@localhost/r", Credential: xmpp.Password("x"), Insecure: true}
		cl, err := xmpp.NewClient(cfg, router, func(error) {})
		if err != nil {
			res.Fail("harness", "NewClient: %v", err)
			return res
		}
		xmpp.VerifSetTransport(cl, st)
		sender = cl
	} else {
		comp, _ := xmpp.NewComponent(xmpp.ComponentOptions{TransportConfiguration: xmpp.TransportConfiguration{Address: "127.0.0.1:1", Domain: "c"}, Domain: "c", Secret: "s"}, router, func(error) {})
		xmpp.VerifSetComponentTransport(comp, st)
		sender = comp
	}

	reqs := make([]*c07Req, len(c.IDs))
	for i, id := range c.IDs {
		ctx, cancel := context.WithCancel(context.Background())
		reqs[i] = &c07Req{id: id, ctx: ctx, cancel: cancel, done: make(chan struct{})}
	}
	var deliveries []*c07Delivery
	var wg sync.WaitGroup
	short := func() time.Duration { return vh.Margin(300 * time.Millisecond) }
	waitCh := func(ch chan struct{}, d time.Duration) bool {
		select {
		case <-ch:
			return true
		case <-time.After(d):
			return false
		}
	}
	sawPark, sawDup, sawCancel := false, false, false
	var entryLeft []int
	nmark := 0
	deliver := func(reqIdx int, id, kind string, park bool) {
		nmark++
		d := &c07Delivery{req: reqIdx, id: id, marker: fmt.Sprintf("resp-%d@x", nmark), done: make(chan struct{}), started: time.Now()}
		deliveries = append(deliveries, d)
		iq := &stanza.IQ{Attrs: stanza.Attrs{Type: stanza.StanzaType(kind), Id: id, From: d.marker}}
		if kind == "error" {
			iq.Error = &stanza.Err{Type: "cancel", Reason: "item-not-found"}
		}
		var g *c07Gate
		if park {
			g = newGate("route.iqresult.found", id)
		}
		wg.Add(1)
		go func() {
			defer wg.Done()
			defer close(d.done)
			defer func() {
				if r := recover(); r != nil {
					d.panicv = fmt.Sprintf("%v\n%s", r, debug.Stack())
				}
			}()
			xmpp.VerifRoute(router, sender, iq)
		}()
		if g != nil {
			select {
			case <-g.arrived:
				sawPark = true
			case <-d.done:
				unpark(g)
			case <-time.After(short()):
				unpark(g)
			}
		} else {
			waitCh(d.done, vh.Margin(20*time.Millisecond)) // if it does not finish it is blocked on the caller's channel
		}
	}

	for _, op := range c.Ops {
		switch op.Op {
		case "sendiq":
			r := reqs[op.Req]
			if r.started {
				continue
			}
			r.started = true
			if op.Early {
				sawPark = true
				fired := false
				kind := op.Kind
				if kind == "" {
					kind = "result"
				}
				reqIdx, rid := op.Req, r.id
				st.onWrite = func(p []byte) {
					if fired || !strings.Contains(string(p), `id="`+rid+`"`) {
						return
					}
					fired = true
					r.written = true
					deliver(reqIdx, rid, kind, false) // returns once the response was routed (or is blocked on the caller's channel)
				}
			}
			var g *c07Gate
			if op.Park {
				g = newGate("sendiq.sent", r.id)
			}
			wg.Add(1)
			go func() {
				defer wg.Done()
				defer close(r.done)
				iq, _ := stanza.NewIQ(stanza.Attrs{Type: stanza.IQTypeGet, Id: r.id, To: "localhost"})
				iq.Payload = &stanza.Version{}
				ch, err := sender.SendIQ(r.ctx, iq)
				mu.Lock()
				r.ch, r.err = ch, err
				mu.Unlock()
			}()
			if g != nil {
				select {
				case <-g.arrived:
					sawPark = true
					r.written = true
				case <-r.done:
					unpark(g)
					r.written = true
				case <-time.After(short()):
					unpark(g)
				}
			} else {
				if !waitCh(r.done, vh.Margin(2*time.Second)) {
					res.Fail("t/sendiq-blocks", "SendIQ for request %d did not return", op.Req)
				}
				r.written = true
			}
			if op.Early {
				st.onWrite = nil
			}
		case "deliver":
			r := reqs[op.Req]
			for _, d := range deliveries {
				if d.id == r.id {
					sawDup = true
				}
			}
			deliver(op.Req, r.id, op.Kind, op.Park)
		case "foreign":
			deliver(-1, "nobody-asked", op.Kind, false)
		case "read":
			r := reqs[op.Req]
			mu.Lock()
			ch := r.ch
			mu.Unlock()
			if ch == nil || r.closed {
				continue
			}
			select {
			case v, ok := <-ch:
				if ok {
					r.got = append(r.got, v)
					// the pending entry must be gone by now (checked here, before any context ends)
					router.IQResultRouteLock.RLock()
					_, still := router.IQResultRoutes[r.id]
					router.IQResultRouteLock.RUnlock()
					nsame := 0
					for _, id := range c.IDs {
						if id == r.id {
							nsame++
						}
					}
					if still && nsame == 1 {
						entryLeft = append(entryLeft, op.Req)
					}
				} else {
					r.closed = true
				}
			case <-time.After(vh.Margin(150 * time.Millisecond)):
			}
		case "cancel":
			r := reqs[op.Req]
			r.cancel()
			r.canceled = true
			sawCancel = true
			time.Sleep(2 * time.Millisecond)
		case "release":
			mu.Lock()
			var parked []*c07Gate
			for _, g := range gates {
				if g.assigned && !g.opened {
					parked = append(parked, g)
				}
			}
			mu.Unlock()
			if len(parked) == 0 {
				continue
			}
			g := parked[op.Gate%len(parked)]
			openGate(g)
			if g.point == "sendiq.sent" {
				for _, r := range reqs {
					if r.id == g.id && r.started {
						waitCh(r.done, vh.Margin(2*time.Second))
					}
				}
			} else {
				time.Sleep(vh.Margin(3 * time.Millisecond))
			}
		}
	}
	// end of history: open every gate, let readers drain what is deliverable, then end every context
	mu.Lock()
	all := append([]*c07Gate(nil), gates...)
	mu.Unlock()
	for _, g := range all {
		unpark(g)
		openGate(g)
	}
	for _, r := range reqs {
		if r.started {
			waitCh(r.done, vh.Margin(2*time.Second))
		}
	}
	time.Sleep(vh.Margin(5 * time.Millisecond))
	for _, r := range reqs {
		r.cancel()
	}
	finished := make(chan struct{})
	go func() { wg.Wait(); close(finished) }()
	allDone := waitCh(finished, vh.Margin(3*time.Second))
	desc := fmt.Sprintf("%s history %+v ids %v", c.Entity, c.Ops, c.IDs)

	// (a) no panic
	for _, d := range deliveries {
		if d.panicv != "" {
			key := "panic-in-route"
			if strings.Contains(d.panicv, "closed channel") {
				key = "panic-send-on-closed-channel"
			}
			res.Fail(key, "%s: routing response %s for id %q panicked: %s", desc, d.marker, d.id, trunc(d.panicv, 600))
			return res
		}
	}
	// (b) nothing blocks once every context is done
	if !allDone {
		var stuck []string
		for _, d := range deliveries {
			select {
			case <-d.done:
			default:
				stuck = append(stuck, d.marker+" for "+d.id)
			}
		}
		res.Fail("t/route-blocked-after-context-done", "%s: every request context is done, yet these route calls never returned: %v", desc, stuck)
		return res
	}
	// drain what is still readable (values delivered but not yet read are not lost)
	for _, r := range reqs {
		if r.ch == nil {
			continue
		}
		for drained := false; !drained && !r.closed; {
			select {
			case v, ok := <-r.ch:
				if ok {
					r.got = append(r.got, v)
				} else {
					r.closed = true
				}
			default:
				drained = true
			}
		}
	}
	mu.Lock()
	ord := append([]stanza.IQ(nil), ordinary...)
	mu.Unlock()
	where := map[string][]string{} // marker -> places
	for i, r := range reqs {
		if len(r.got) > 1 {
			res.Fail("channel-yields-twice", "%s: the channel of request %d yielded %d responses", desc, i, len(r.got))
		}
		for _, v := range r.got {
			where[v.From] = append(where[v.From], fmt.Sprintf("channel-%d", i))
			if v.Id != r.id {
				res.Fail("response-to-other-request", "%s: request %d (id %q) received a response with id %q", desc, i, r.id, v.Id)
			}
		}
	}
	for _, v := range ord {
		where[v.From] = append(where[v.From], "ordinary")
	}
	for m, places := range where {
		if len(places) > 1 {
			res.Fail("response-delivered-twice", "%s: response %s was delivered to %v", desc, m, places)
		}
	}
	// (c) the first response for a request that was written, with distinct id, never cancelled, whose receiver read: on the channel
	clash := map[string]int{}
	for _, id := range c.IDs {
		clash[id]++
	}
	for i, r := range reqs {
		if !r.started || clash[r.id] > 1 || r.err != nil {
			continue
		}
		var first *c07Delivery
		for _, d := range deliveries {
			if d.req == i {
				first = d
				break
			}
		}
		if first == nil || !r.written {
			continue
		}
		// was a read attempted after the delivery started? (ops order)
		readAfter := false
		seenDeliver := false
		canceledBefore := false
		for _, op := range c.Ops {
			if (op.Op == "deliver" && op.Req == i) || (op.Op == "sendiq" && op.Req == i && op.Early) {
				seenDeliver = true
			}
			if op.Op == "cancel" && op.Req == i && !seenDeliver {
				canceledBefore = true
			}
			if op.Op == "read" && op.Req == i && seenDeliver {
				readAfter = true
			}
		}
		canceledEver := false
		for _, op := range c.Ops {
			if op.Op == "cancel" && op.Req == i {
				canceledEver = true
			}
		}
		_ = canceledBefore
		if readAfter && !canceledEver {
			if len(r.got) != 1 {
				key := "response-not-delivered-to-caller"
				parkedSend := false
				for _, op := range c.Ops {
					if op.Op == "sendiq" && op.Req == i && (op.Park || op.Early) {
						parkedSend = true
					}
				}
				if parkedSend {
					key = "early-response-lost"
				}
				res.Fail(key, "%s: request %d (id %q) was written, a response arrived and the caller read, but the channel yielded %d responses (ordinary routes saw %v)", desc, i, r.id, len(r.got), where[first.marker])
			} else if !r.closed {
				// closed must follow the delivery
				select {
				case _, ok := <-r.ch:
					if ok {
						res.Fail("channel-yields-twice", "%s: request %d: second value on the channel", desc, i)
					}
				case <-time.After(vh.Margin(200 * time.Millisecond)):
					res.Fail("t/channel-not-closed", "%s: request %d: the response was delivered but the channel was not closed", desc, i)
				}
			}
			for _, e := range entryLeft {
				if e == i {
					res.Fail("pending-entry-not-removed", "%s: request %d: the pending entry for id %q was still registered after the response had been received", desc, i, r.id)
				}
			}
		}
	}
	// (d) responses for ids nobody waits for are routed like any other packet
	for _, d := range deliveries {
		if d.req == -1 && len(where[d.marker]) != 1 {
			res.Fail("foreign-response-not-routed", "%s: response %s for an unknown id was delivered to %v, expected the ordinary route once", desc, d.marker, where[d.marker])
		}
	}
	res.NonTrivial = sawPark || sawDup || sawCancel
	if sawPark {
		res.Label("parked-at-yield-point")
	}
	if sawDup {
		res.Label("duplicate-response")
	}
	if sawCancel {
		res.Label("cancellation")
	}
	return res
}

var c07 = vh.Define(&vh.Def[c07Case]{
	Property: "C07", Name: "iqresult",
	Rule: "histories over 1-4 SendIQ requests (distinct ids, occasionally clashing) on a Client or Component with a stub Transport: sendiq(i) optionally parked at the yield point between write and registration or with its response routed from inside the transport's Write (before the write returns), deliver(i, result|error) on its own goroutine through Router.route optionally parked at the yield point after the pending entry was found, deliver of a response nobody asked for, read(i), cancel(i), release(parked goroutine); built from race templates (response between write and registration; two responses both past the lookup; delivery to a receiver that never reads, with or without cancellation; duplicate after a normal exchange) and free-form sequences; at the end all gates open and all contexts end; oracle: no route call panics, every route call returns once all contexts are done, a channel yields at most one response and only one with its own id, no response is delivered to two places, for a request with a distinct id that was written, never cancelled and read after the response arrived the channel yields exactly that response, is closed afterwards and the pending entry is gone, responses for unknown ids reach the ordinary route exactly once; non-trivial = a goroutine was parked at a yield point, a duplicate response, or a cancellation",
	Quick: 2000, Thorough: 100000,
	Gen: genC07, Run: runC07,
})

func TestC07_iqresult(t *testing.T) { c07.Check(t) }
func TestC07_Regress(t *testing.T)  { vh.Regress(t, "C07") }
