package harness

// C15 — JID parsing and formatting. Generator: (local, domain, resource)
// triples over accepted and rejected character classes, plus arbitrary
// strings; oracle: a reference parser written from the property statement and
// the Full()/Bare() round trip.

import (
	"strings"
	"testing"
	"unicode"

	"gosrc.io/xmpp/stanza"
	"pgregory.net/rapid"
	"verifharness/vh"
)

type c15Case struct {
	S string `json:"s"`
	// how the string was built (informational, used for labels)
	Built string `json:"built"`
}

var c15Spaces = []rune{' ', '\t', '\n', '\r', '\v', '\f', 0x85, 0xA0, 0x1680, 0x2000, 0x2003, 0x200A, 0x2028, 0x2029, 0x202F, 0x205F, 0x3000}
var c15LocalForbidden = []rune{'@', '/', '\'', '"', ':', '<', '>'}

func c15CleanRune() *rapid.Generator[rune] {
	return rapid.OneOf(
		rapid.RuneFrom([]rune("abcxyzABZ0189-._")),
		rapid.RuneFrom([]rune("éßжλ中あ🙂")),
	)
}

// runes the code does not name but RFC 7622 would forbid or that are merely unusual
func c15OddRune() *rapid.Generator[rune] {
	return rapid.RuneFrom([]rune("&;!#$%*+=?^`{|}~()[],\\\x00\x01\x7f"))
}

func c15Part(t *rapid.T, label string, extra []rune, allowEmpty bool) string {
	min := 1
	if allowEmpty {
		min = 0
	}
	n := rapid.IntRange(min, 6).Draw(t, label+"Len")
	var sb strings.Builder
	for i := 0; i < n; i++ {
		switch rapid.IntRange(0, 9).Draw(t, label+"Class") {
		case 0:
			if len(extra) > 0 {
				sb.WriteRune(rapid.SampledFrom(extra).Draw(t, label+"Extra"))
			} else {
				sb.WriteRune(c15CleanRune().Draw(t, label+"Rune"))
			}
		case 1:
			sb.WriteRune(c15OddRune().Draw(t, label+"Odd"))
		default:
			sb.WriteRune(c15CleanRune().Draw(t, label+"Rune"))
		}
	}
	return sb.String()
}

func genC15(t *rapid.T) c15Case {
	switch rapid.IntRange(0, 9).Draw(t, "mode") {
	case 0: // arbitrary string over a small hostile alphabet
		s := rapid.StringOfN(rapid.RuneFrom([]rune("ab@/ .'\"<>:é\t")), 0, 8, -1).Draw(t, "s")
		return c15Case{S: s, Built: "arbitrary"}
	case 1: // arbitrary unicode string
		return c15Case{S: rapid.String().Draw(t, "s"), Built: "unicode"}
	}
	// triple based
	hasLocal := rapid.Bool().Draw(t, "hasLocal")
	hasRes := rapid.Bool().Draw(t, "hasRes")
	bad := rapid.IntRange(0, 9).Draw(t, "bad") // 0..5 = inject something from a rejected class
	var local, domain, res string
	built := "triple"
	if hasLocal {
		local = c15Part(t, "local", nil, false)
	}
	domain = c15Part(t, "domain", nil, false)
	if hasRes {
		res = c15Part(t, "res", []rune{'/', '@', ' ', ':', '<', '\''}, true)
	}
	insert := func(s string, r rune, label string) string {
		rs := []rune(s)
		i := rapid.IntRange(0, len(rs)).Draw(t, label)
		return string(rs[:i]) + string(r) + string(rs[i:])
	}
	switch bad {
	case 0:
		if hasLocal {
			local = insert(local, rapid.SampledFrom(c15Spaces).Draw(t, "sp"), "at")
			built = "space-in-local"
		}
	case 1:
		if hasLocal {
			// '/' is excluded by the statement (slash before the first '@'); '@' cannot be in the local part by construction
			local = insert(local, rapid.SampledFrom([]rune{'\'', '"', ':', '<', '>'}).Draw(t, "fb"), "at")
			built = "forbidden-in-local"
		}
	case 2:
		domain = insert(domain, rapid.SampledFrom(c15Spaces).Draw(t, "sp"), "at")
		built = "space-in-domain"
	case 3:
		domain = insert(domain, '@', "at")
		built = "at-in-domain"
	case 4:
		if hasLocal {
			local = ""
			built = "empty-local"
		}
	case 5:
		domain = ""
		built = "empty-domain"
	}
	s := domain
	if hasLocal {
		s = local + "@" + domain
	}
	if hasRes {
		s += "/" + res
	}
	return c15Case{S: s, Built: built}
}

// refJid is the reference parser, written from the property statement.
// ok: definitely accepted; rejected: definitely rejected; neither: nothing asserted about acceptance.
func refJid(s string) (local, domain, res string, mustAccept, mustReject, excluded bool) {
	if s == "" {
		return "", "", "", false, true, false
	}
	rest := s
	hasLocal := false
	if i := strings.Index(s, "@"); i >= 0 {
		if strings.Contains(s[:i], "/") {
			return "", "", "", false, false, true // '/' before the first '@': nothing asserted
		}
		hasLocal = true
		local, rest = s[:i], s[i+1:]
	}
	domain = rest
	if i := strings.Index(rest, "/"); i >= 0 {
		domain, res = rest[:i], rest[i+1:]
	}
	if hasLocal && local == "" {
		mustReject = true
	}
	if domain == "" {
		mustReject = true
	}
	odd := false
	for _, r := range local {
		if unicode.IsSpace(r) || strings.ContainsRune("@/'\":<>", r) {
			mustReject = true
		}
		if !(unicode.IsLetter(r) || unicode.IsDigit(r) || strings.ContainsRune("-._", r) || r > 0xffff) {
			odd = true
		}
	}
	for _, r := range domain {
		if unicode.IsSpace(r) || r == '@' || r == '/' {
			mustReject = true
		}
		if !(unicode.IsLetter(r) || unicode.IsDigit(r) || strings.ContainsRune("-._", r) || r > 0xffff) {
			odd = true
		}
	}
	mustAccept = !mustReject && !odd
	return
}

func runC15(c c15Case) vh.Result {
	var res vh.Result
	res.Label(c.Built)
	local, domain, resource, mustAccept, mustReject, excluded := refJid(c.S)
	if excluded {
		res.Excluded = true
		// still must not panic
		_, _ = stanza.NewJid(c.S)
		return res
	}
	j, err := stanza.NewJid(c.S)
	switch {
	case mustReject && err == nil:
		res.Fail("accepts-malformed", "NewJid(%q) accepted a malformed address: %+v", c.S, *j)
	case mustAccept && err != nil:
		res.Fail("rejects-wellformed", "NewJid(%q) rejected a well-formed address: %v", c.S, err)
	}
	if err == nil && !mustReject {
		if j == nil {
			res.Fail("nil-jid", "NewJid(%q) returned nil, nil", c.S)
			return res
		}
		if j.Node != local || j.Domain != domain || j.Resource != resource {
			res.Fail("parts", "NewJid(%q) = (%q,%q,%q), expected (%q,%q,%q)", c.S, j.Node, j.Domain, j.Resource, local, domain, resource)
		}
		// round trips
		full := j.Full()
		j2, err2 := stanza.NewJid(full)
		if err2 != nil || j2 == nil || *j2 != *j {
			key := "full-roundtrip"
			if j.Node == "" && j.Resource != "" {
				key = "full-roundtrip-domain-resource"
			}
			res.Fail(key, "NewJid(%q)=%+v; Full()=%q parses to %+v, err=%v", c.S, *j, full, j2, err2)
		}
		bare := j.Bare()
		j3, err3 := stanza.NewJid(bare)
		if err3 != nil || j3 == nil || j3.Node != j.Node || j3.Domain != j.Domain || j3.Resource != "" {
			res.Fail("bare-roundtrip", "NewJid(%q)=%+v; Bare()=%q parses to %+v, err=%v", c.S, *j, bare, j3, err3)
		}
	}
	res.NonTrivial = mustReject || resource != ""
	if mustReject {
		res.Label("must-reject")
	}
	if mustAccept {
		res.Label("must-accept")
	}
	if resource != "" {
		res.Label("has-resource")
		if local == "" && !mustReject {
			res.Label("domain-with-resource")
		}
		if strings.ContainsAny(resource, "/@") {
			res.Label("resource-with-slash-or-at")
		}
	}
	return res
}

var c15 = vh.Define(&vh.Def[c15Case]{
	Property: "C15", Name: "jid",
	Rule: "strings built from (local, domain, resource) triples over accepted classes (letters, digits, -._, non-ASCII, astral), odd-but-unnamed characters (acceptance not asserted, round trip asserted when accepted) and each rejected class (Unicode white space, ' \" : < > in the local part, @ or white space in the domain, empty local part, empty domain), plus arbitrary strings; strings with '/' before the first '@' are excluded and counted; oracle = reference parser written from the statement + NewJid(Full()) and NewJid(Bare()) round trips; non-trivial = the string has a resource or belongs to a rejected class",
	Quick: 200000, Thorough: 8000000,
	Gen: genC15, Run: runC15,
})

func TestC15_jid(t *testing.T)     { c15.Check(t) }
func TestC15_Regress(t *testing.T) { vh.Regress(t, "C15") }

func FuzzC15(f *testing.F) {
	for _, s := range []string{"a@b/c", "b/c", "a@b", "@", "/", "a@b/c/d@e", " a@b", "a@b c", "a'@b"} {
		f.Add(s)
	}
	f.Fuzz(func(t *testing.T, s string) {
		res := runC15(c15Case{S: s, Built: "fuzz"})
		for _, v := range res.Violations {
			if !vh.IsKnown("C15", v.Key) {
				t.Fatalf("[%s] %s", v.Key, v.Msg)
			}
		}
	})
}
