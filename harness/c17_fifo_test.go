package harness

// C17 — the unacknowledged-stanza queue is a FIFO with increasing sequence
// numbers. Stateful model-based check: an operation sequence is generated as
// a value, applied to stanza.UnAckQueue and to a reference slice.

import (
	"fmt"
	"testing"

	"gosrc.io/xmpp/stanza"
	"pgregory.net/rapid"
	"verifharness/vh"
)

type c17Op struct {
	Op  string `json:"op"` // push pushForeign pop popN peek peekN empty repush mutate
	K   int    `json:"k,omitempty"`
	Stz string `json:"stz,omitempty"`
}

type c17Case struct {
	Ops []c17Op `json:"ops"`
}

type foreignQueueable struct{}

func (foreignQueueable) QueueableName() string { return "foreign" }

func genC17(t *rapid.T) c17Case {
	n := rapid.IntRange(1, 40).Draw(t, "n")
	ops := make([]c17Op, 0, n)
	size := 0 // approximate model length, used to draw k around the interesting boundary
	for i := 0; i < n; i++ {
		kind := rapid.SampledFrom([]string{"push", "push", "push", "pushForeign", "pop", "popN", "peek", "peekN", "empty", "repush", "mutate"}).Draw(t, "op")
		op := c17Op{Op: kind}
		switch kind {
		case "push":
			op.Stz = rapid.StringMatching(`[a-c]{0,3}`).Draw(t, "stz")
			size++
		case "repush": // push an entry the caller already holds (pushed before, or returned by a pop or a peek)
			op.K = rapid.IntRange(0, 60).Draw(t, "which")
			size++
		case "mutate": // the caller changes an entry it owns (one it built for Push, or one a pop handed back)
			op.K = rapid.IntRange(0, 60).Draw(t, "which")
			op.Stz = rapid.StringMatching(`[x-z]{1,2}`).Draw(t, "stz")
		case "popN", "peekN":
			switch rapid.IntRange(0, 5).Draw(t, "kclass") {
			case 0:
				op.K = rapid.IntRange(-5, -1).Draw(t, "k")
			case 1:
				op.K = 0
			case 2:
				op.K = size
			case 3:
				op.K = size + rapid.IntRange(1, 4).Draw(t, "k")
			default:
				op.K = rapid.IntRange(1, 6).Draw(t, "k")
			}
			if kind == "popN" && op.K > 0 {
				size -= op.K
				if size < 0 {
					size = 0
				}
			}
		case "pop":
			if size > 0 {
				size--
			}
		}
		ops = append(ops, op)
	}
	return c17Case{Ops: ops}
}

func c17Payloads(qs []stanza.Queueable) ([]string, []int, error) {
	var ps []string
	var ids []int
	for _, q := range qs {
		u, ok := q.(*stanza.UnAckedStz)
		if !ok || u == nil {
			return nil, nil, fmt.Errorf("element %T is not a *UnAckedStz", q)
		}
		ps = append(ps, u.Stz)
		ids = append(ids, u.Id)
	}
	return ps, ids, nil
}

func eqStrings(a, b []string) bool {
	if len(a) != len(b) {
		return false
	}
	for i := range a {
		if a[i] != b[i] {
			return false
		}
	}
	return true
}

func runC17(c c17Case) vh.Result {
	var res vh.Result
	q := stanza.NewUnAckQueue()
	var model []string
	emptiedAndRefilled, wasEmptied, poppedAfterRefill, peeks, pops := false, false, false, 0, 0
	snapshot := func() ([]string, []int) {
		var ps []string
		var ids []int
		for _, u := range q.Uslice {
			ps = append(ps, u.Stz)
			ids = append(ids, u.Id)
		}
		return ps, ids
	}
	// entries the caller holds: built for Push, or handed back by the queue; owned = not (any more) part of the queue
	// by reference, so that changing it is the caller's own business
	var held []*stanza.UnAckedStz
	var owned []bool
	hold := func(q stanza.Queueable, own bool) {
		if u, ok := q.(*stanza.UnAckedStz); ok && u != nil {
			held = append(held, u)
			owned = append(owned, own)
		}
	}
	repushes, mutations := 0, 0
	// slices handed back by PeekN / PopN are values the caller keeps: a later call must not change them
	type keptSlice struct {
		step int
		op   string
		got  []stanza.Queueable
		was  []stanza.Queueable
	}
	var kept []keptSlice
	keptChecked := 0
	for i, op := range c.Ops {
		before, beforeIds := snapshot()
		switch op.Op {
		case "repush":
			if len(held) == 0 {
				break
			}
			u := held[op.K%len(held)]
			want := u.Stz
			if err := q.Push(u); err != nil {
				res.Fail("push-error", "step %d push of a held entry returned error %v", i, err)
			}
			repushes++
			model = append(model, want)
		case "mutate":
			if len(held) == 0 {
				break
			}
			if k := op.K % len(held); owned[k] {
				held[k].Stz = op.Stz
				held[k].Id = -7 - i
				mutations++
			}
		case "push":
			u := &stanza.UnAckedStz{Id: 1000 + i, Stz: op.Stz}
			hold(u, true)
			err := q.Push(u)
			if err != nil {
				res.Fail("push-error", "step %d push returned error %v", i, err)
			}
			if wasEmptied && len(model) == 0 {
				emptiedAndRefilled = true
			}
			model = append(model, op.Stz)
		case "pushForeign":
			err := q.Push(foreignQueueable{})
			if err == nil {
				res.Fail("foreign-accepted", "step %d: Push of a foreign Queueable returned nil", i)
			}
		case "pop":
			pops++
			got := q.Pop()
			hold(got, true)
			if len(model) == 0 {
				if got != nil {
					res.Fail("pop-empty", "step %d: Pop on empty queue returned %v", i, got)
				}
			} else {
				u, ok := got.(*stanza.UnAckedStz)
				if !ok || u == nil || u.Stz != model[0] {
					res.Fail("pop-value", "step %d: Pop returned %v, model head %q", i, got, model[0])
				}
				model = model[1:]
				if emptiedAndRefilled {
					poppedAfterRefill = true
				}
			}
		case "popN", "peekN":
			var got []stanza.Queueable
			if op.Op == "popN" {
				pops++
				got = q.PopN(op.K)
			} else {
				peeks++
				got = q.PeekN(op.K)
			}
			n := op.K
			if n < 0 {
				n = 0
			}
			if n > len(model) {
				n = len(model)
			}
			want := model[:n]
			for _, g := range got {
				hold(g, op.Op == "popN")
			}
			if len(got) > 0 {
				kept = append(kept, keptSlice{i, op.Op, got, append([]stanza.Queueable(nil), got...)})
			}
			ps, ids, err := c17Payloads(got)
			if err != nil {
				res.Fail("popn-type", "step %d %s(%d): %v", i, op.Op, op.K, err)
			} else if !eqStrings(ps, want) {
				res.Fail("popn-value", "step %d %s(%d) returned %q, model %q", i, op.Op, op.K, ps, want)
			} else {
				for j := range ids {
					if ids[j] != beforeIds[j] {
						res.Fail("popn-ids", "step %d %s(%d) returned ids %v, queue had %v", i, op.Op, op.K, ids, beforeIds)
						break
					}
				}
			}
			if op.Op == "popN" {
				model = model[n:]
				if n > 0 && emptiedAndRefilled {
					poppedAfterRefill = true
				}
			}
		case "peek":
			peeks++
			got := q.Peek()
			hold(got, false)
			if len(model) == 0 {
				if got != nil {
					res.Fail("peek-empty", "step %d: Peek on empty queue returned %v", i, got)
				}
			} else {
				u, ok := got.(*stanza.UnAckedStz)
				if !ok || u == nil || u.Stz != model[0] {
					res.Fail("peek-value", "step %d: Peek returned %v, model head %q", i, got, model[0])
				}
			}
		case "empty":
			if q.Empty() != (len(model) == 0) {
				res.Fail("empty", "step %d: Empty()=%v, model length %d", i, q.Empty(), len(model))
			}
		}
		if len(model) == 0 && len(before) > 0 {
			wasEmptied = true
		}
		after, afterIds := snapshot()
		if !eqStrings(after, model) {
			res.Fail("contents", "step %d (%s): queue holds %q, model %q", i, op.Op, after, model)
		}
		if op.Op == "peek" || op.Op == "peekN" || op.Op == "empty" || op.Op == "pushForeign" || op.Op == "mutate" {
			if !eqStrings(before, after) || fmt.Sprint(beforeIds) != fmt.Sprint(afterIds) {
				res.Fail("peek-modifies", "step %d: %s changed the queue from %q%v to %q%v", i, op.Op, before, beforeIds, after, afterIds)
			}
		}
		for _, k := range kept {
			if k.step == i {
				continue
			}
			keptChecked++
			for j := range k.was {
				if k.got[j] != k.was[j] {
					res.Fail("result-changed-later", "step %d (%s): the slice returned by %s at step %d had entry %d = %+v, now %+v", i, op.Op, k.op, k.step, j, k.was[j], k.got[j])
					break
				}
			}
		}
		for j := 1; j < len(afterIds); j++ {
			if afterIds[j] <= afterIds[j-1] {
				res.Fail("ids-not-increasing", "step %d (%s): sequence numbers %v not strictly increasing", i, op.Op, afterIds)
				break
			}
		}
		if len(res.Violations) > 0 {
			break
		}
	}
	res.NonTrivial = poppedAfterRefill || (peeks > 0 && pops > 0)
	if repushes > 0 {
		res.Label("push-of-held-entry")
	}
	if mutations > 0 {
		res.Label("caller-changes-own-entry")
	}
	if keptChecked > 0 {
		res.Label("earlier-peekN-popN-result-rechecked")
	}
	if poppedAfterRefill {
		res.Label("pop-after-empty-and-refill")
	}
	if peeks > 0 && pops > 0 {
		res.Label("mixed-peek-pop")
	}
	return res
}

var c17 = vh.Define(&vh.Def[c17Case]{
	Property: "C17", Name: "fifo",
	Rule: "rapid-generated operation sequences (1-40 ops over push, push of a foreign Queueable, pop, popN(k), peek, peekN(k), empty, push of an entry the caller already holds (pushed before or returned by a pop or peek), the caller overwriting an entry it owns (built for Push or handed back by a pop); k drawn from negative / 0 / exactly the length / beyond / small) applied to stanza.UnAckQueue and to a reference slice, compared after every step; every slice PeekN / PopN handed back is kept and compared again (entry identity) after every later step; non-trivial = a pop/popN after the queue was emptied and refilled, or a sequence mixing peeks and pops; distinct = distinct operation sequences (SHA-256 of the case)",
	Quick: 20000, Thorough: 2000000,
	Gen: genC17, Run: runC17,
})

func TestC17_fifo(t *testing.T)    { c17.Check(t) }
func TestC17_Regress(t *testing.T) { vh.Regress(t, "C17") }
