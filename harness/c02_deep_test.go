package harness

// C02 (deep inputs) — arbitrarily deep nesting must yield a packet or an
// error, never kill the process. Every case runs in a child process. To reach
// unbounded recursion with inputs of a few MB, the child can run with a
// reduced maximum goroutine stack (debug.SetMaxStack): stack use that grows
// with the input depth without bound then shows up at a depth of tens of
// thousands instead of hundreds of thousands. The thorough tier repeats the
// deepest shapes with the default 1 GB stack.

import (
	"encoding/xml"
	"fmt"
	"os"
	"runtime/debug"
	"strings"
	"testing"
	"time"

	"gosrc.io/xmpp/stanza"
	"pgregory.net/rapid"
	"verifharness/vh"
)

type c02DeepCase struct {
	Shape      string `json:"shape"`
	Depth      int    `json:"depth"`
	MaxStackMB int    `json:"max_stack_mb"` // 0 = Go default (1 GB)
}

var c02DeepShapes = []string{"iq-unknown-payload", "message-unknown-child", "message-error-child", "presence-unknown-child", "features-unknown-child",
	"starttls-feature-child", "iq-pubsub-item-payload", "forwarded-chain", "iq-forwarded-chain", "command-node-child", "stream-error-child", "sm-failed-child"}

func c02DeepInput(shape string, n int) (string, string) {
	a, z := strings.Repeat("<a>", n), strings.Repeat("</a>", n)
	deep := a + z
	switch shape {
	case "iq-unknown-payload":
		return "iq", "<iq type='get' id='1'><q xmlns='urn:x:u'>" + deep + "</q></iq>"
	case "message-unknown-child":
		return "message", "<message id='1'><q xmlns='urn:x:u'>" + deep + "</q></message>"
	case "message-error-child":
		return "message", "<message id='1'><error type='cancel'>" + deep + "</error></message>"
	case "presence-unknown-child":
		return "presence", "<presence id='1'>" + deep + "</presence>"
	case "features-unknown-child":
		return "features", "<stream:features>" + deep + "</stream:features>"
	case "starttls-feature-child":
		return "features", "<stream:features><starttls xmlns='urn:ietf:params:xml:ns:xmpp-tls'>" + deep + "</starttls></stream:features>"
	case "iq-pubsub-item-payload":
		return "iq", "<iq type='result' id='1'><pubsub xmlns='http://jabber.org/protocol/pubsub'><items node='n'><item id='i'><e xmlns='urn:x:u'>" + deep + "</e></item></items></pubsub></iq>"
	case "forwarded-chain":
		o := "<message xmlns='jabber:client'><delegation xmlns='urn:xmpp:delegation:1'><forwarded xmlns='urn:xmpp:forward:0'>"
		c := "</forwarded></delegation></message>"
		return "message", strings.Repeat(o, n) + strings.Repeat(c, n)
	case "iq-forwarded-chain":
		o := "<iq xmlns='jabber:client' type='set' id='1'><delegation xmlns='urn:xmpp:delegation:1'><forwarded xmlns='urn:xmpp:forward:0'>"
		c := "</forwarded></delegation></iq>"
		return "iq", strings.Repeat(o, n) + strings.Repeat(c, n)
	case "command-node-child":
		return "iq", "<iq type='set' id='1'><command xmlns='http://jabber.org/protocol/commands' node='n'><q xmlns='urn:x:u'>" + deep + "</q></command></iq>"
	case "stream-error-child":
		return "error", "<stream:error>" + deep + "</stream:error>"
	case "sm-failed-child":
		return "failed", "<failed xmlns='urn:xmpp:sm:3'>" + deep + "</failed>"
	}
	return "", ""
}

func genC02Deep(t *rapid.T) c02DeepCase {
	c := c02DeepCase{Shape: rapid.SampledFrom(c02DeepShapes).Draw(t, "shape")}
	maxd := 60000
	c.MaxStackMB = 64
	if vh.Thorough() && rapid.IntRange(0, 3).Draw(t, "realStack") == 0 {
		c.MaxStackMB = 0
		maxd = 450000
	}
	switch rapid.IntRange(0, 2).Draw(t, "depthClass") {
	case 0:
		c.Depth = rapid.IntRange(1, 2000).Draw(t, "depth")
	case 1:
		c.Depth = rapid.IntRange(2000, maxd/3).Draw(t, "depth")
	default:
		c.Depth = rapid.IntRange(maxd/3, maxd).Draw(t, "depth")
	}
	return c
}

func runC02Deep(c c02DeepCase) vh.Result {
	var res vh.Result
	res.Label(c.Shape)
	res.NonTrivial = c.Depth >= 100
	if c.MaxStackMB > 0 && os.Getenv("VERIF_CHILD_RESULT") != "" {
		debug.SetMaxStack(c.MaxStackMB << 20)
	}
	if c.MaxStackMB == 0 {
		res.Label("default-stack")
	}
	want, elem := c02DeepInput(c.Shape, c.Depth)
	if want == "" {
		res.Fail("harness", "unknown shape %q", c.Shape)
		return res
	}
	d := xml.NewDecoder(strings.NewReader(clientStreamHeader + elem))
	if _, err := stanza.InitStream(d); err != nil {
		res.Fail("harness", "header: %v", err)
		return res
	}
	t0 := time.Now()
	p, err := stanza.NextPacket(d)
	el := time.Since(t0)
	if err == nil {
		kind, _, _, _, _, _ := c02Describe(p)
		if kind != want {
			res.Fail("deep-wrong-kind:"+c.Shape, "depth %d: expected a %s packet, got %s", c.Depth, want, kind)
		}
		res.Label("parsed")
	} else {
		res.Label("rejected-with-error")
	}
	if el > 60*time.Second {
		res.Label("slow>60s")
	}
	_ = fmt.Sprint
	return res
}

var c02Deep = vh.Define(&vh.Def[c02DeepCase]{
	Property: "C02", Name: "deep",
	Rule: "one top-level element of 12 shapes (unknown payload of an iq, unknown child of message/presence/features/starttls/stream error/failed, error child, pubsub item payload, command child, chains of message>delegation>forwarded>message and iq>delegation>forwarded>iq) nested to a generated depth (1 .. 60000 with a 64 MB goroutine stack limit set in the child process, so that recursion proportional to the depth is reached with MB-sized inputs; thorough also up to 450000 with the default 1 GB stack); each case runs in a child process; oracle: NextPacket returns the right kind of packet or an error and the process survives; non-trivial = depth >= 100",
	Quick: 36, Thorough: 600, Isolate: true, ChildTimeout: 300 * time.Second,
	CrashClass: func(c c02DeepCase) string { return c.Shape },
	Gen:        genC02Deep, Run: runC02Deep,
})

func TestC02_deep(t *testing.T) { c02Deep.Check(t) }
