package harness

// C09 — stream management: the reported inbound count equals the number of
// stanzas received. Wire truth is kept by the scripted peer.

import (
	"sync/atomic"
	"fmt"
	"strconv"
	"testing"
	"time"

	xmpp "gosrc.io/xmpp"
	"pgregory.net/rapid"
	"verifharness/peer"
	"verifharness/vh"
)

type c09Case struct {
	// Segments: one inbound history per connection; between two segments the
	// peer drops the connection and the client resumes.
	Segments [][]string `json:"segments"` // items: m p iq-result iq-error iq-get iq-set r a features enabled success
	Chunks   []int      `json:"chunks,omitempty"`
	// Before: inbound histories of earlier connections of the same Client on which the server did not offer stream
	// management (each ends with a drop); the stream-managed session that follows must start counting at zero.
	Before [][]string `json:"before,omitempty"`
	// SMResume: the resume attribute of the server's <enabled/> ("" = true, "-" = attribute absent). Acknowledgements
	// are active either way; without resumption the history has a single connection.
	SMResume string `json:"sm_resume,omitempty"`
	// Trailing: per segment but the last, elements the server sends after the segment's final <r/> was answered and
	// right before it closes the connection (FIN after the data): they were received, so the resumption counts them.
	Trailing [][]string `json:"trailing,omitempty"`
	// ResumeInHandler: Resume is called by the handler of the Disconnected event, as StreamManager does, instead of by
	// the caller once the event has been seen.
	ResumeInHandler bool `json:"resume_in_handler,omitempty"`
}

var c09Items = []string{"m", "m", "p", "iq-result", "iq-error", "iq-get", "iq-set", "r", "r", "r", "a", "a", "features", "enabled", "success"}

func genC09(t *rapid.T) c09Case {
	var c c09Case
	nseg := 1
	if rapid.IntRange(0, 3).Draw(t, "resume") == 0 {
		nseg = rapid.IntRange(2, 4).Draw(t, "nseg")
	} else if rapid.IntRange(0, 2).Draw(t, "noresume") == 0 {
		c.SMResume = rapid.SampledFrom([]string{"-", "false", "0", "1", "true"}).Draw(t, "smresume")
	}
	for s := 0; s < nseg; s++ {
		max := 60
		if nseg > 1 {
			max = 20
		}
		n := rapid.IntRange(0, max).Draw(t, "n")
		seg := make([]string, 0, n+1)
		for i := 0; i < n; i++ {
			seg = append(seg, rapid.SampledFrom(c09Items).Draw(t, "item"))
		}
		seg = append(seg, "r") // every segment ends with an acknowledgement request
		c.Segments = append(c.Segments, seg)
	}
	if nseg > 1 {
		c.ResumeInHandler = rapid.Bool().Draw(t, "resumeInHandler")
		if rapid.Bool().Draw(t, "trailing") {
			for s := 0; s+1 < nseg; s++ {
				n := rapid.IntRange(0, 4).Draw(t, "ntrail")
				tr := make([]string, 0, n)
				for i := 0; i < n; i++ {
					tr = append(tr, rapid.SampledFrom([]string{"m", "p", "iq-result", "iq-error", "iq-get", "iq-set", "a"}).Draw(t, "titem"))
				}
				c.Trailing = append(c.Trailing, tr)
			}
		}
	}
	if rapid.IntRange(0, 3).Draw(t, "before") == 0 {
		nb := rapid.IntRange(1, 2).Draw(t, "nbefore")
		for b := 0; b < nb; b++ {
			n := rapid.IntRange(0, 8).Draw(t, "nb")
			seg := make([]string, 0, n)
			for i := 0; i < n; i++ {
				seg = append(seg, rapid.SampledFrom([]string{"m", "p", "iq-result", "iq-get", "features"}).Draw(t, "bitem"))
			}
			c.Before = append(c.Before, seg)
		}
	}
	if rapid.Bool().Draw(t, "chunked") {
		k := rapid.IntRange(1, 3).Draw(t, "nchunks")
		for i := 0; i < k; i++ {
			c.Chunks = append(c.Chunks, rapid.IntRange(1, 40).Draw(t, "chunk"))
		}
	}
	return c
}

func isStanzaItem(it string) bool {
	switch it {
	case "m", "p", "iq-result", "iq-error", "iq-get", "iq-set":
		return true
	}
	return false
}

func nonzaXML(it string) string {
	switch it {
	case "r":
		return "<r xmlns='urn:xmpp:sm:3'/>"
	case "a":
		return "<a xmlns='urn:xmpp:sm:3' h='1000000'/>"
	case "features":
		return "<stream:features><sm xmlns='urn:xmpp:sm:3'/></stream:features>"
	case "enabled":
		return "<enabled xmlns='urn:xmpp:sm:3' id='zz'/>"
	case "success":
		return "<success xmlns='urn:ietf:params:xml:ns:xmpp-sasl'/>"
	}
	return ""
}

type c09Obs struct {
	viol []vh.Violation
	done bool
}

func runC09(c c09Case) vh.Result {
	var res vh.Result
	total := 0 // stanzas the peer has sent on the stream-managed session so far (wire truth)
	obsc := make(chan c09Obs, 8)
	script := &peer.Script{Mechs: []string{"PLAIN"}, OfferSM: true, ExpectEnable: true, SMId: "sm-c09", SMResume: c.SMResume}
	afterNonStanza := false
	srv, err := peer.Listen(func(pc *peer.Conn) {
		var o c09Obs
		sent := false
		report := func() {
			if !sent {
				sent = true
				obsc <- o
			}
		}
		defer report()
		if pc.Index < len(c.Before) {
			// a connection without stream management: feed, make sure everything was consumed, drop
			out := pc.Negotiate(&peer.Script{Mechs: []string{"PLAIN"}}, 10*time.Second)
			if !out.Established {
				o.viol = append(o.viol, vh.V("harness-not-established", "non-SM connection %d not established (steps %v)", pc.Index, out.Steps))
				return
			}
			for k, it := range c.Before[pc.Index] {
				if isStanzaItem(it) {
					pc.Send(inboundStanza(it, fmt.Sprintf("b%d-%d", pc.Index, k), 0))
				} else {
					pc.Send(nonzaXML(it))
				}
			}
			// the client answers <r/> even without stream management: the answer proves everything before it was read
			pc.Send("<r xmlns='urn:xmpp:sm:3'/>")
			for {
				ev := pc.NextElem(5 * time.Second)
				if ev.Kind != "elem" || ev.Name.Local == "a" {
					break
				}
			}
			o.done = true
			report()
			pc.GracefulClose(time.Second)
			return
		}
		idx := pc.Index - len(c.Before)
		if idx >= len(c.Segments) {
			pc.Close()
			return
		}
		out := pc.Negotiate(script, 10*time.Second)
		if idx == 0 {
			if !out.Established || out.EnableReq == nil {
				o.viol = append(o.viol, vh.V("harness-not-established", "first connection: session not established with SM (steps %v)", out.Steps))
				return
			}
		} else {
			if out.ResumeReq == nil {
				o.viol = append(o.viol, vh.V("no-resume-request", "connection %d: client did not ask to resume (steps %v)", idx, out.Steps))
				return
			}
			h, _ := strconv.Atoi(out.ResumeReq.Attr["h"])
			if out.ResumeReq.Attr["previd"] != "sm-c09" {
				o.viol = append(o.viol, vh.V("resume-wrong-previd", "connection %d: <resume previd=%q>, the id given at enable was sm-c09", idx, out.ResumeReq.Attr["previd"]))
			}
			if h != total {
				o.viol = append(o.viol, vh.V("resume-wrong-h", "connection %d: <resume h=%d/> but the server had sent %d stanzas on the session", idx, h, total))
				return
			}
		}
		nid := 0
		for _, it := range c.Segments[idx] {
			if isStanzaItem(it) {
				nid++
				pc.SendChunks(inboundStanza(it, fmt.Sprintf("c%d-%d", idx, nid), 0), c.Chunks)
				total++
				continue
			}
			pc.SendChunks(nonzaXML(it), c.Chunks)
			if it != "r" {
				afterNonStanza = true
				continue
			}
			// read the answer
			for {
				ev := pc.NextElem(10 * time.Second)
				if ev.Kind != "elem" {
					o.viol = append(o.viol, vh.V("r-not-answered", "connection %d: no <a/> answer to <r/> after %d stanzas (%s %s)", idx, total, ev.Kind, ev.Err))
					return
				}
				if ev.Name.Local == "a" && ev.Name.Space == peer.NSSM {
					h, err := strconv.Atoi(ev.Attr["h"])
					if err != nil || h != total {
						key := "a-wrong-h"
						o.viol = append(o.viol, vh.V(key, "connection %d: client answered <a h=%q/> but the server had sent %d stanzas so far (history %v)", idx, ev.Attr["h"], total, c.Segments))
						return
					}
					break
				}
				// anything else the client sends (initial presence, iq errors for unhandled requests, <r/>) is skipped
			}
		}
		o.done = true
		if idx+1 < len(c.Segments) {
			sentTrailing := false
			if idx < len(c.Trailing) {
				for k, it := range c.Trailing[idx] {
					sentTrailing = true
					if isStanzaItem(it) {
						pc.SendChunks(inboundStanza(it, fmt.Sprintf("t%d-%d", idx, k), 0), c.Chunks)
						total++
					} else {
						pc.SendChunks(nonzaXML(it), c.Chunks)
					}
				}
			}
			if sentTrailing {
				// FIN after the data, and no RST: the client reads everything before it sees the end of the stream
				report()
				pc.GracefulClose(2 * time.Second)
			} else {
				pc.Close() // drop the connection; the client is expected to resume
			}
		} else {
			report()
			pc.AfterFault(10 * time.Second)
		}
	})
	if err != nil {
		res.Fail("harness", "listen: %v", err)
		return res
	}
	defer srv.Close()
	cl, rec, _, err := newTestClientCfg(srv.Addr, clientOpt{Insecure: true, SM: true})
	if err != nil {
		res.Fail("harness", "NewClient: %v", err)
		return res
	}
	totalConns := len(c.Before) + len(c.Segments)
	var resumesLeft int32 = int32(totalConns - 1)
	resumed := make(chan error, totalConns+1)
	if c.ResumeInHandler {
		rec.evHook = func(e xmpp.Event) {
			if xmpp.VerifEventState(e) == xmpp.StateDisconnected && atomic.AddInt32(&resumesLeft, -1) >= 0 {
				resumed <- cl.Resume()
			}
		}
	}
	if err := cl.Connect(); err != nil {
		res.Fail("harness-connect", "Connect: %v", err)
		return res
	}
	for seg := 0; seg < totalConns; seg++ {
		var o c09Obs
		select {
		case o = <-obsc:
		case <-time.After(30 * time.Second):
			res.Fail("harness", "peer did not finish segment %d", seg)
			return res
		}
		res.Violations = append(res.Violations, o.viol...)
		if len(o.viol) > 0 || !o.done {
			break
		}
		if seg+1 < totalConns && c.ResumeInHandler {
			select {
			case err := <-resumed:
				if err != nil {
					res.Fail("harness-resume", "segment %d: Resume (called by the Disconnected handler) failed: %v", seg, err)
				}
			case <-time.After(20 * time.Second):
				res.Fail("harness-no-disconnect", "segment %d: connection dropped by the peer but the Disconnected handler had not resumed within 20 s", seg)
			}
			if len(res.Violations) > 0 {
				break
			}
		} else if seg+1 < totalConns {
			// wait for the loss to be noticed, then resume
			if !waitFor(5*time.Second, func() bool { return rec.count(xmpp.StateDisconnected) >= seg+1 }) {
				res.Fail("harness-no-disconnect", "segment %d: connection dropped by the peer but no Disconnected event within 5 s", seg)
				break
			}
			if err := cl.Resume(); err != nil {
				res.Fail("harness-resume", "segment %d: Resume failed: %v", seg, err)
				break
			}
		}
	}
	atomic.StoreInt32(&resumesLeft, -1000)
	go func() { _ = cl.Disconnect() }()
	stanzas := 0
	for _, seg := range c.Segments {
		for _, it := range seg {
			if isStanzaItem(it) {
				stanzas++
			}
		}
	}
	res.NonTrivial = stanzas > 0 || afterNonStanza || len(c.Segments) > 1
	if len(c.Before) > 0 {
		res.Label("earlier-connections-without-sm")
	}
	if len(c.Segments) > 1 {
		res.Label("resumption")
	}
	if c.SMResume == "-" || c.SMResume == "false" || c.SMResume == "0" {
		res.Label("enabled-without-resumption")
	}
	if c.ResumeInHandler {
		res.Label("resume-called-by-disconnected-handler")
	}
	for _, tr := range c.Trailing {
		if len(tr) > 0 {
			res.Label("elements-between-last-r-and-loss")
			break
		}
	}
	if afterNonStanza {
		res.Label("r-after-non-stanza")
	}
	return res
}

var c09 = vh.Define(&vh.Def[c09Case]{
	Property: "C09", Name: "smcount",
	Rule: "inbound histories over {message, presence, iq result/error/get/set, <r/>, <a/>, stream features, <enabled/>, SASL success}, 0-60 elements per connection, optionally written in chunks of generated sizes, on 1-4 successive connections of one client (the peer drops the connection and the client resumes - called by the test once the Disconnected event was seen or, in half of these cases, by the handler of that event as StreamManager does; in half of them 0-4 further elements follow the last answered <r/> before the peer closes with FIN after the data), in a quarter of the cases preceded by 1-2 connections of the same client on which the server did not offer stream management (the stream-managed session must then start at zero), the server's <enabled/> allowing resumption or not (resume absent / false / 0 / 1 / true; single-connection histories); a real Client with stream management negotiated against the scripted peer; oracle = wire truth kept by the peer: h of every <a/> written by the client equals the number of stanzas the peer had sent before the <r/>, h of every <resume/> equals the total on the session and previd is the id from <enabled/>; non-trivial = the history has a stanza, an <r/> after a non-stanza element, or a resumption",
	Quick: 2000, Thorough: 24000, Journal: true,
	Gen: genC09, Run: runC09,
})

func TestC09_smcount(t *testing.T) { c09.Check(t) }
func TestC09_Regress(t *testing.T) { vh.Regress(t, "C09") }
