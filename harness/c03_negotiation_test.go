package harness

// C03 — negotiation succeeds iff the server completed every mandatory step,
// in order. Scripts = client configuration x per-step server behaviour; a
// reference FSM of the negotiation computes the expected request sequence and
// outcome.

import (
	"errors"
	"sync/atomic"
	"fmt"
	"sort"
	"strings"
	"testing"
	"time"

	xmpp "gosrc.io/xmpp"
	"pgregory.net/rapid"
	"verifharness/peer"
	"verifharness/vh"
)

type c03Case struct {
	// client configuration
	Insecure bool `json:"insecure"`
	Resource bool `json:"resource"`
	SM       bool `json:"sm"`
	Prior    bool `json:"prior"` // resumable state from a real earlier connection
	WS       bool `json:"ws,omitempty"` // WebSocket transport (RFC 7395 framing, no STARTTLS step)
	// server behaviour
	Script peer.Script `json:"script"`
	// WFault: the client's own write of this request fails in a wrapped Transport (TCP only): "error" = nothing written,
	// "partial" = half of the bytes, then the error. Steps: auth bind session enable.
	WFault     string `json:"wfault,omitempty"`
	WFaultMode string `json:"wfault_mode,omitempty"`
}

// <starttls/> is not among them: the library ignores the result of that write, and with a server that never saw the
// request and therefore stays silent Connect blocks. The statement quantifies over what the server answers, not over
// client-side write failures, so that is recorded as an observation in DESIGN.md and not asserted here.
// <resume/> is not among them either: after a failed write of it the library goes on to bind a fresh session, which the
// statement allows ("either a matching resumption or a bind result").
var c03WriteSteps = []string{"auth", "bind", "session", "enable"}

// c03WriteStep names the negotiation request a client write carries ("" = none of them).
func c03WriteStep(p []byte) string {
	s := string(p)
	switch {
	case strings.HasPrefix(s, "<starttls"):
		return "starttls"
	case strings.HasPrefix(s, "<auth"):
		return "auth"
	case strings.HasPrefix(s, "<enable"):
		return "enable"
	case strings.HasPrefix(s, "<iq") && strings.Contains(s, peer.NSBind):
		return "bind"
	case strings.HasPrefix(s, "<iq") && strings.Contains(s, peer.NSSession):
		return "session"
	}
	return ""
}

var c03Steps = []string{"open1", "starttls", "tls", "open2", "auth", "open3", "resume", "bind", "session", "enable"}

type c03DevSpec struct {
	Kind     string
	Variants int
}

var c03Devs = []c03DevSpec{{"failure", 3}, {"stream-error", 4}, {"unexpected", 11}, {"malformed", 5}, {"truncated", 4}, {"close", 1}, {"halfclose", 1}}

func c03DevValid(step string, d peer.Dev) bool {
	switch step {
	case "resume":
		if d.Kind == "failure" {
			return false // <failed/> is a refusal, after which a fresh bind is correct: expressed by ResumeReply, not by a deviation
		}
	case "tls":
		return d.Kind == "close" || d.Kind == "malformed"
	case "bind", "session":
		if d.Kind == "unexpected" && d.Variant%11 == 2 {
			return false // a bare <iq type='result'/> with another id: id matching is not part of the statement
		}
	}
	if d.Kind == "failure" && (step == "open1" || step == "open2" || step == "open3") {
		return false // covered by stream-error
	}
	return true
}

func genC03(t *rapid.T) c03Case {
	var c c03Case
	c.Insecure = rapid.Bool().Draw(t, "insecure")
	c.Resource = rapid.Bool().Draw(t, "resource")
	c.SM = rapid.Bool().Draw(t, "sm")
	c.Prior = c.SM && rapid.IntRange(0, 2).Draw(t, "prior") == 0
	c.WS = rapid.IntRange(0, 3).Draw(t, "ws") == 0
	s := &c.Script
	s.Mechs = []string{"PLAIN"}
	s.OfferTLS = rapid.IntRange(0, 3).Draw(t, "offerTLS") != 0
	s.TLSRequired = s.OfferTLS && rapid.Bool().Draw(t, "tlsRequired")
	s.Session = rapid.SampledFrom([]string{"", "mandatory", "optional"}).Draw(t, "session")
	s.OfferSM = rapid.IntRange(0, 3).Draw(t, "offerSM") != 0
	s.CheckEarly = true
	if c.Prior {
		s.ResumeReply = rapid.SampledFrom([]string{"resumed-same", "resumed-same", "failed", "failed-item-not-found", "resumed-other"}).Draw(t, "resumeReply")
	}
	s.Variant = map[string]int{}
	for _, st := range []string{"open1", "open2", "open3", "bind", "enable"} {
		if rapid.IntRange(0, 2).Draw(t, "variant") == 0 {
			s.Variant[st] = rapid.IntRange(1, 4).Draw(t, "v")
		}
	}
	ndev := rapid.SampledFrom([]int{0, 1, 1, 1, 2}).Draw(t, "ndev")
	s.Dev = map[string]peer.Dev{}
	for i := 0; i < ndev; i++ {
		step := rapid.SampledFrom(c03Steps).Draw(t, "devStep")
		spec := rapid.SampledFrom(c03Devs).Draw(t, "devKind")
		d := peer.Dev{Kind: spec.Kind, Variant: rapid.IntRange(0, spec.Variants-1).Draw(t, "devVariant")}
		if c03DevValid(step, d) {
			s.Dev[step] = d
		}
	}
	if !c.WS && rapid.IntRange(0, 4).Draw(t, "wfault") == 0 {
		c.WFault = rapid.SampledFrom(c03WriteSteps).Draw(t, "wfaultStep")
		c.WFaultMode = rapid.SampledFrom([]string{"error", "partial"}).Draw(t, "wfaultMode")
	}
	return c
}

// c03Model is the reference FSM: the requests the client is expected to make,
// in order, and whether the connection must succeed.
//
// sessionSent: when the server marks the legacy session as optional the client may or may not open it (the
// statement only demands it when mandatory); the model then follows what the client did.
func c03Model(c c03Case, sessionSent bool) (steps []string, success bool, resumed bool) {
	s := c.Script
	dev := func(st string) bool {
		if st == c.WFault && !c.WS {
			return true // the request never leaves the client in one piece: the server does not see this step
		}
		steps = append(steps, st)
		_, has := s.Dev[st]
		return has
	}
	if dev("open1") {
		return steps, false, false
	}
	if s.OfferTLS && !c.WS {
		for _, st := range []string{"starttls", "tls", "open2"} {
			if dev(st) {
				return steps, false, false
			}
		}
	} else if !c.Insecure {
		return steps, false, false // TLS is required by the client and not available
	}
	if dev("auth") || dev("open3") {
		return steps, false, false
	}
	if c.Prior && s.OfferSM {
		if dev("resume") {
			return steps, false, false
		}
		switch {
		case s.ResumeReply == "" || s.ResumeReply == "resumed-same":
			return steps, true, true
		case strings.HasPrefix(s.ResumeReply, "failed"):
			// refused: a fresh session is bound
		default:
			return steps, false, false
		}
	}
	if dev("bind") {
		return steps, false, false
	}
	if s.Session == "mandatory" || (s.Session == "optional" && sessionSent) {
		if dev("session") {
			return steps, false, false
		}
	}
	if s.OfferSM && c.SM {
		if dev("enable") {
			return steps, false, false
		}
	}
	return steps, true, false
}

func runC03(c c03Case) vh.Result {
	var res vh.Result
	wantSteps, wantOK, wantResumed := c03Model(c, false)
	faultStep := ""
	if !wantOK && len(wantSteps) > 0 {
		faultStep = wantSteps[len(wantSteps)-1]
		if _, has := c.Script.Dev[faultStep]; !has {
			faultStep = "tls-unavailable"
			if c.WFault != "" && !c.WS {
				faultStep = "write-" + c.WFault
			}
		}
	}
	nonDefault := len(c.Script.Variant) > 0
	res.NonTrivial = !wantOK || nonDefault
	if wantOK {
		res.Label("expect-success")
	} else {
		res.Label("fault-at-" + faultStep)
		if d, ok := c.Script.Dev[faultStep]; ok {
			res.Label("dev-" + d.Kind)
		}
	}
	if c.Prior {
		res.Label("resumable-state")
	}

	outc := make(chan *peer.Outcome, 4)
	prior := &peer.Script{Mechs: []string{"PLAIN"}, OfferTLS: c.Script.OfferTLS, OfferSM: true, SMId: "sm-prior"}
	script := c.Script
	var addr string
	if c.WS {
		res.Label("websocket")
		wsrv, err := peer.ListenWS("xmpp", func(wc *peer.WSConn) {
			if c.Prior && wc.Index == 0 {
				o := wc.WSNegotiate(prior, 10*time.Second)
				outc <- o
				time.Sleep(30 * time.Millisecond) // let Connect return before the connection goes away
				wc.DropTCP(time.Second)
				return
			}
			o := wc.WSNegotiate(&script, 10*time.Second)
			outc <- o
			// keep reading (and answering the closing handshake) until the client goes away
			for {
				ev := wc.Recv(8 * time.Second)
				if ev.Kind == "close" {
					wc.Send(`<close xmlns="urn:ietf:params:xml:ns:xmpp-framing"/>`)
				}
				if ev.Kind == "eof" || ev.Kind == "timeout" || ev.Kind == "close" {
					return
				}
			}
		})
		if err != nil {
			res.Fail("harness", "listen: %v", err)
			return res
		}
		defer wsrv.Close()
		addr = wsrv.URL
	} else {
		srv, err := peer.Listen(func(pc *peer.Conn) {
			if c.Prior && pc.Index == 0 {
				o := pc.Negotiate(prior, 10*time.Second)
				outc <- o
				pc.Close()
				return
			}
			o := pc.Negotiate(&script, 10*time.Second)
			outc <- o
			if o.Established {
				pc.AfterFault(8 * time.Second)
			}
		})
		if err != nil {
			res.Fail("harness", "listen: %v", err)
			return res
		}
		defer srv.Close()
		addr = srv.Addr
	}
	jid := "user@localhost"
	if c.Resource {
		jid += "/res"
	}
	// the prior connection must itself succeed: it needs TLS or insecure mode
	cl, rec, _, err := newTestClientCfg(addr, clientOpt{Jid: jid, Insecure: c.Insecure, SM: c.SM})
	if err != nil {
		res.Fail("harness", "NewClient: %v", err)
		return res
	}
	// The wrapper goes in before any connection is made (a Session keeps the Transport it was created with across
	// resumptions); the fault is armed once the prior connection is over.
	var wfired, warmed atomic.Bool
	if c.WFault != "" && !c.WS {
		wrap := &stubTransport{inner: xmpp.VerifGetTransport(cl)}
		wrap.writeFault = func(p []byte, inner xmpp.Transport) (bool, int, error) {
			if !warmed.Load() || wfired.Load() || c03WriteStep(p) != c.WFault {
				return false, 0, nil
			}
			wfired.Store(true)
			n := 0
			if c.WFaultMode == "partial" {
				n, _ = inner.Write(p[:len(p)/2])
			}
			return true, n, errors.New("injected write failure")
		}
		xmpp.VerifSetTransport(cl, wrap)
	}
	if c.Prior {
		if (!c.Script.OfferTLS || c.WS) && !c.Insecure {
			res.Excluded = true // no resumable state can exist: the first connection cannot be made
			return res
		}
		if err := cl.Connect(); err != nil {
			res.Fail("harness-prior-connect", "prior connection failed: %v", err)
			return res
		}
		<-outc
		if !waitFor(5*time.Second, func() bool { return rec.count(xmpp.StateDisconnected) >= 1 }) {
			res.Fail("harness-prior-disconnect", "prior connection: no Disconnected event")
			return res
		}
	}
	warmed.Store(true)
	statesBefore, _, _ := rec.snapshot()
	type connRes struct{ err error }
	done := make(chan connRes, 1)
	t0 := time.Now()
	go func() {
		defer func() {
			if r := recover(); r != nil {
				done <- connRes{err: fmt.Errorf("PANIC: %v", r)}
			}
		}()
		if c.Prior {
			done <- connRes{err: cl.Resume()}
		} else {
			done <- connRes{err: cl.Connect()}
		}
	}()
	var cerr error
	select {
	case r := <-done:
		cerr = r.err
	case <-time.After(vh.Margin(12 * time.Second)):
		res.Fail("t/connect-hangs", "Connect did not return within the margin (fault at %s: %+v)", faultStep, c.Script.Dev[faultStep])
		return res
	}
	el := time.Since(t0)
	var o *peer.Outcome
	select {
	case o = <-outc:
	case <-time.After(12 * time.Second):
		res.Fail("harness", "peer did not finish")
		return res
	}
	if cerr == nil {
		go func() { _ = cl.Disconnect() }()
	}
	if wfired.Load() {
		res.Label("client-write-fault")
	}
	if c.Script.Session == "optional" {
		sess := append([]string(nil), o.Steps...)
		if wfired.Load() && c.WFault == "session" {
			sess = append(sess, "session") // the client did open the optional session: its request is the one that failed
		}
		for _, st := range sess {
			if st == "session" {
				wantSteps, wantOK, wantResumed = c03Model(c, true)
				faultStep = ""
				if !wantOK && len(wantSteps) > 0 {
					faultStep = wantSteps[len(wantSteps)-1]
					if _, has := c.Script.Dev[faultStep]; !has && c.WFault != "" {
						faultStep = "write-" + c.WFault
					}
				}
			}
		}
	}
	desc := fmt.Sprintf("ws=%v config{insecure=%v resource=%v sm=%v prior=%v} server{tls=%v session=%q sm=%v resume=%q dev=%v}", c.WS, c.Insecure, c.Resource, c.SM, c.Prior, c.Script.OfferTLS, c.Script.Session, c.Script.OfferSM, c.Script.ResumeReply, devString(c.Script.Dev))
	if cerr != nil && strings.HasPrefix(cerr.Error(), "PANIC") {
		res.Fail("panic", "%s: %v", desc, cerr)
		return res
	}
	// outcome
	if wantOK && cerr != nil {
		res.Fail("success-expected", "%s: every mandatory step was completed by the server but Connect failed: %v (steps seen %v)", desc, cerr, o.Steps)
	}
	if !wantOK && cerr == nil {
		key := "failure-accepted:" + faultStep
		if d, ok := c.Script.Dev[faultStep]; ok {
			key += ":" + d.Kind
		}
		res.Fail(key, "%s: the server did not complete step %s (%+v) but Connect returned nil (steps seen %v)", desc, faultStep, c.Script.Dev[faultStep], o.Steps)
	}
	// events
	statesAfter, _, _ := rec.snapshot()
	established := 0
	for _, st := range statesAfter[len(statesBefore):] {
		if st == xmpp.StateSessionEstablished {
			established++
		}
	}
	if cerr == nil && established != 1 {
		res.Fail("established-event-count", "%s: Connect returned nil but %d SessionEstablished events were delivered", desc, established)
	}
	if cerr != nil && established != 0 {
		res.Fail("established-event-on-failure", "%s: Connect failed (%v) but a SessionEstablished event was delivered", desc, cerr)
	}
	// request order: the requests the peer saw must be the model's sequence (a prefix of it on failure paths never goes beyond the fault)
	seen := o.Steps
	if len(seen) > len(wantSteps) {
		res.Fail("request-after-fault", "%s: client requests %v, expected only %v", desc, seen, wantSteps)
	} else {
		for i := range seen {
			if seen[i] != wantSteps[i] {
				res.Fail("request-order", "%s: client requests %v, expected %v", desc, seen, wantSteps)
				break
			}
		}
		if wantOK && len(seen) < len(wantSteps) && cerr == nil {
			res.Fail("step-skipped", "%s: Connect succeeded but the client only made requests %v of %v", desc, seen, wantSteps)
		}
	}
	if len(o.Early) > 0 {
		res.Fail("request-sent-early", "%s: the client had already sent more data before the server answered step(s) %v", desc, o.Early)
	}
	if wantOK && cerr == nil && wantResumed != o.Resumed {
		res.Fail("resume-mismatch", "%s: expected resumed=%v, peer saw resumed=%v", desc, wantResumed, o.Resumed)
	}
	if el > vh.Margin(8*time.Second) {
		res.Fail("t/connect-slow", "%s: Connect took %v", desc, el)
	}
	return res
}

func devString(m map[string]peer.Dev) string {
	var ks []string
	for k := range m {
		ks = append(ks, k)
	}
	sort.Strings(ks)
	var sb strings.Builder
	for _, k := range ks {
		fmt.Fprintf(&sb, "%s:%s/%d ", k, m[k].Kind, m[k].Variant)
	}
	return sb.String()
}

var c03 = vh.Define(&vh.Def[c03Case]{
	Property: "C03", Name: "negotiation",
	Rule: "scripts = client configuration (insecure allowed or not, resource given or not, stream management requested or not, resumable state obtained from a real earlier connection or not) x server features (STARTTLS offered/required/absent, session absent/mandatory/optional, SM offered or not, success variants with extra features, white space and look-alike features from foreign namespaces) x 0-2 deviations drawn from {step} x {failure / stanza error in 3 forms incl. echoed payload, stream error, unexpected element (11, incl. IQs of type get / set / none), malformed XML (5), truncated element (4), close, half-close}, and in a fifth of the TCP scripts the client's own write of one request (auth / bind / session / enable) fails in a wrapped Transport (nothing or half of it written), which counts as a fault at that step the server never sees; a real Client connects to the scripted peer over TCP (with a real TLS handshake against an in-memory CA) or, in a quarter of the generated scripts, over WebSocket framing (no STARTTLS step); oracle = reference FSM of the negotiation: Connect nil iff no deviation hit a step the client reaches, exactly one SessionEstablished event iff success and none otherwise, the sequence of client requests equals the FSM's sequence and never goes beyond the faulty step, no request is already pending when the peer is about to answer the previous one (3 ms look-ahead, one-directional), Connect returns within the margin, no panic; non-trivial = the script contains a fault or a non-default success variant",
	Quick: 320, Thorough: 8000, Journal: true,
	Gen: genC03, Run: runC03,
})

func TestC03_negotiation(t *testing.T) { c03.Check(t) }

// TestC03_singlefaults enumerates {step} x {deviation kind x variant} x {configuration}
// for single faults: completely in the thorough tier, a 1/24 slice (selected by the seed) in the quick tier.
func TestC03_singlefaults(t *testing.T) {
	sh, n := vh.Shard()
	k := 0
	slice := 1
	if !vh.Thorough() {
		slice = 24
	}
	pick := int(vh.Seed() % uint64(slice))
	for _, insecure := range []bool{false, true} {
		for _, sm := range []bool{false, true} {
			for _, tls := range []bool{false, true} {
				for _, session := range []string{"", "mandatory", "optional"} {
					for _, offerSM := range []bool{false, true} {
						for _, step := range c03Steps {
							if step == "resume" {
								continue // needs resumable state: covered by the generated scripts and by C11
							}
							for _, spec := range c03Devs {
								for v := 0; v < spec.Variants; v++ {
									d := peer.Dev{Kind: spec.Kind, Variant: v}
									if !c03DevValid(step, d) {
										continue
									}
									k++
									if k%slice != pick || (k/slice)%n != sh {
										continue
									}
									c := c03Case{Insecure: insecure, Resource: k%2 == 0, SM: sm,
										Script: peer.Script{Mechs: []string{"PLAIN"}, OfferTLS: tls, Session: session, OfferSM: offerSM, CheckEarly: true, Dev: map[string]peer.Dev{step: d}}}
									c03.RunCase(t, c)
								}
							}
						}
					}
				}
			}
		}
	}
	vh.Extra("C03", "C03_negotiation", "single_fault_scripts_in_space", int64(k))
	if slice == 1 {
		vh.MarkExhaustive("C03", "C03_negotiation")
	}
}

func TestC03_Regress(t *testing.T) { vh.Regress(t, "C03") }
