package harness

// C07 (stress) — genuinely concurrent duplicates and cancellations, for the
// interleavings that do not pass through a yield point: every round registers
// one request and lets D goroutines route a response with its id at the same
// moment (start barrier), optionally racing with the cancellation of the
// request's context.

import (
	"context"
	"fmt"
	"runtime/debug"
	"sync"
	"testing"
	"time"

	xmpp "gosrc.io/xmpp"
	"gosrc.io/xmpp/stanza"
	"pgregory.net/rapid"
	"verifharness/vh"
)

type c07StressCase struct {
	Entity string `json:"entity"`
	Rounds int    `json:"rounds"`
	Dups   int    `json:"dups"`
	Cancel bool   `json:"cancel"` // a goroutine cancels the context concurrently with the responses
	Read   bool   `json:"read"`   // the caller reads the channel (otherwise it abandons it)
}

func genC07Stress(t *rapid.T) c07StressCase {
	return c07StressCase{
		Entity: rapid.SampledFrom([]string{"client", "component"}).Draw(t, "entity"),
		Rounds: rapid.IntRange(50, 400).Draw(t, "rounds"),
		Dups:   rapid.IntRange(2, 8).Draw(t, "dups"),
		Cancel: rapid.Bool().Draw(t, "cancel"),
		Read:   rapid.IntRange(0, 3).Draw(t, "read") != 0,
	}
}

func runC07Stress(c c07StressCase) vh.Result {
	var res vh.Result
	res.NonTrivial = true
	var mu sync.Mutex
	var ordinary []string
	router := xmpp.NewRouter()
	router.NewRoute().HandlerFunc(func(s xmpp.Sender, p stanza.Packet) {
		if iq, ok := p.(*stanza.IQ); ok {
			mu.Lock()
			ordinary = append(ordinary, iq.From)
			mu.Unlock()
		}
	})
	st := &stubTransport{}
	var sender xmpp.Sender
	if c.Entity == "client" {
		cfg := &xmpp.Config{TransportConfiguration: xmpp.TransportConfiguration{Address: "127.0.0.1:1", Domain: "localhost"}, Jid: "user@localhost/r", Credential: xmpp.Password("x"), Insecure: true}
		cl, err := xmpp.NewClient(cfg, router, func(error) {})
		if err != nil {
			res.Fail("harness", "NewClient: %v", err)
			return res
		}
		xmpp.VerifSetTransport(cl, st)
		sender = cl
	} else {
		comp, _ := xmpp.NewComponent(xmpp.ComponentOptions{TransportConfiguration: xmpp.TransportConfiguration{Address: "127.0.0.1:1", Domain: "c"}, Domain: "c", Secret: "s"}, router, func(error) {})
		xmpp.VerifSetComponentTransport(comp, st)
		sender = comp
	}
	desc := fmt.Sprintf("%+v", c)
	for r := 0; r < c.Rounds && len(res.Violations) == 0; r++ {
		id := fmt.Sprintf("s%d", r)
		ctx, cancel := context.WithCancel(context.Background())
		iq, _ := stanza.NewIQ(stanza.Attrs{Type: stanza.IQTypeGet, Id: id, To: "localhost"})
		iq.Payload = &stanza.Version{}
		ch, err := sender.SendIQ(ctx, iq)
		if err != nil {
			cancel()
			res.Fail("harness", "SendIQ: %v", err)
			return res
		}
		start := make(chan struct{})
		var wg sync.WaitGroup
		panics := make(chan string, c.Dups+1)
		for d := 0; d < c.Dups; d++ {
			wg.Add(1)
			go func(d int) {
				defer wg.Done()
				defer func() {
					if rec := recover(); rec != nil {
						panics <- fmt.Sprintf("%v\n%s", rec, debug.Stack())
					}
				}()
				resp := &stanza.IQ{Attrs: stanza.Attrs{Type: stanza.IQTypeResult, Id: id, From: fmt.Sprintf("r%d-d%d@x", r, d)}}
				<-start
				xmpp.VerifRoute(router, sender, resp)
			}(d)
		}
		if c.Cancel {
			wg.Add(1)
			go func() {
				defer wg.Done()
				<-start
				cancel()
			}()
		}
		close(start)
		var got []string
		if c.Read {
			// like a real caller: wait for the response or for the end of the context
			select {
			case v, ok := <-ch:
				if ok {
					got = append(got, v.From)
				}
			case <-ctx.Done():
			case <-time.After(vh.Margin(2 * time.Second)):
			}
		}
		done := make(chan struct{})
		go func() { wg.Wait(); close(done) }()
		select {
		case <-done:
		case <-time.After(vh.Margin(500 * time.Millisecond)):
			// blocked deliveries must at least end once the context is done
			cancel()
			select {
			case <-done:
			case <-time.After(vh.Margin(3 * time.Second)):
				res.Fail("t/route-blocked-after-context-done", "%s round %d: route calls still blocked after the request context was cancelled", desc, r)
				return res
			}
		}
		cancel()
		select {
		case p := <-panics:
			res.Fail("panic-in-route", "%s round %d: routing a response panicked: %s", desc, r, trunc(p, 900))
			return res
		default:
		}
		// drain the channel
		for drained := false; !drained; {
			select {
			case v, ok := <-ch:
				if !ok {
					drained = true
				} else {
					got = append(got, v.From)
				}
			default:
				drained = true
			}
		}
		mu.Lock()
		ord := append([]string(nil), ordinary...)
		ordinary = ordinary[:0]
		mu.Unlock()
		if len(got) > 1 {
			res.Fail("channel-yields-twice", "%s round %d: the channel yielded %d responses %v", desc, r, len(got), got)
		}
		seen := map[string]int{}
		for _, m := range got {
			seen[m]++
		}
		for _, m := range ord {
			seen[m]++
		}
		for m, n := range seen {
			if n > 1 {
				res.Fail("response-delivered-twice", "%s round %d: response %s was delivered %d times", desc, r, m, n)
			}
		}
		if !c.Cancel && c.Read {
			if len(got) != 1 {
				res.Fail("response-not-delivered-to-caller", "%s round %d: %d responses raced for a pending, uncancelled request; the caller received %d", desc, r, c.Dups, len(got))
			}
			if len(ord) != c.Dups-1 {
				res.Fail("duplicates-not-routed", "%s round %d: %d duplicates expected on the ordinary route, got %d", desc, r, c.Dups-1, len(ord))
			}
		}
		if len(got)+len(ord) > c.Dups {
			res.Fail("response-invented", "%s round %d: %d responses sent, %d delivered", desc, r, c.Dups, len(got)+len(ord))
		}
	}
	if c.Cancel {
		res.Label("racing-cancellation")
	}
	if !c.Read {
		res.Label("abandoned-receiver")
	}
	return res
}

var c07Stress = vh.Define(&vh.Def[c07StressCase]{
	Property: "C07", Name: "stress",
	Rule: "50-400 rounds per case; each round registers one SendIQ request (Client or Component on a stub Transport) and releases 2-8 goroutines at a start barrier that all route a response with the request's id, optionally together with a goroutine cancelling the request's context, the caller reading or abandoning the channel; oracle per round: no panic in a route call, every route call returns (at the latest once the context is cancelled), the channel yields at most one response, no response is delivered twice, nothing is invented, and without cancellation a reading caller gets exactly one response while the other D-1 reach the ordinary route; every case is non-trivial",
	Quick: 120, Thorough: 4000,
	Gen: genC07Stress, Run: runC07Stress,
})

func TestC07_stress(t *testing.T) { c07Stress.Check(t) }
