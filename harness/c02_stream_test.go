package harness

// C02 — stream parsing: one packet per top-level element, right kind, total
// on any bytes. A stream is generated from a grammar as a value (list of
// top-level elements with child forests), serialised by the harness's own
// serialiser (which records where each top-level element ends), and read with
// stanza.NextPacket through readers that split the bytes in generated ways.

import (
	"regexp"
	"encoding/xml"
	"fmt"
	"io"
	"reflect"
	"strings"
	"testing"
	"time"

	"gosrc.io/xmpp/stanza"
	"pgregory.net/rapid"
	"verifharness/vh"
)

type c02Child struct {
	Kind string     `json:"k"` // text cdata comment elem nested literal
	Text string     `json:"t,omitempty"`
	Name string     `json:"n,omitempty"`
	NS   string     `json:"ns,omitempty"`
	Kids []c02Child `json:"c,omitempty"`
	// literal only: Ins > 0 puts InsWhat (an element nobody registered, a delay stamp, a comment; no text, which would
	// change the value of elements with typed content such as <priority/>) right
	// behind the Ins-th start tag (cyclically) inside the known extension
	Ins     int    `json:"ins,omitempty"`
	InsWhat string `json:"insw,omitempty"`
}

var c02Inserts = []string{
	"<x xmlns='urn:x:unknown'><y a='1'>z</y></x>", "<delay xmlns='urn:xmpp:delay' stamp='2002-09-10T23:08:25Z'/>", "<unknown/>",
	"<!-- c -->", "@same", "@same", "<forwarded xmlns='urn:xmpp:forward:0'><message xmlns='jabber:client' id='inner'/></forwarded>",
}

// c02Insert puts what behind the n-th (cyclically) start tag of the literal; literals with CDATA sections or comments
// are left alone (a '>' inside them is not the end of a tag).
func c02Insert(lit string, n int, what string) string {
	if n <= 0 || strings.Contains(lit, "<![CDATA[") || strings.Contains(lit, "<!--") {
		return lit
	}
	var cands []int
	for i := 0; i < len(lit); i++ {
		if lit[i] != '<' || i+1 >= len(lit) || lit[i+1] == '/' {
			continue
		}
		j := strings.IndexByte(lit[i:], '>')
		if j < 0 {
			break
		}
		if lit[i+j-1] != '/' {
			cands = append(cands, i+j+1)
		}
		i += j
	}
	if len(cands) == 0 {
		return lit
	}
	at := cands[(n-1)%len(cands)]
	if what == "@same" {
		// an element named like the first child of that element, but in a namespace nobody knows
		what = "<x xmlns='urn:x:unknown'/>"
		if at+1 < len(lit) && lit[at] == '<' && lit[at+1] != '/' {
			end := at + 1
			for end < len(lit) && lit[end] != ' ' && lit[end] != '>' && lit[end] != '/' {
				end++
			}
			what = "<" + lit[at+1:end] + " xmlns='urn:x:unknown'><y/></" + lit[at+1:end] + ">"
		}
	}
	return lit[:at] + what + lit[at:]
}

type c02Elem struct {
	Kind   string     `json:"kind"`
	Id     string     `json:"id,omitempty"`
	From   string     `json:"from,omitempty"`
	To     string     `json:"to,omitempty"`
	Type   string     `json:"type,omitempty"`
	H      int        `json:"h,omitempty"`
	Name   string     `json:"name,omitempty"` // unknown elements
	NS     string     `json:"ns,omitempty"`
	Kids   []c02Child `json:"kids,omitempty"`
	DQuote bool       `json:"dq,omitempty"`     // attribute quoting style
	Prefix bool       `json:"prefix,omitempty"` // prefixed name instead of default namespace
	Gap    string     `json:"gap,omitempty"`    // white space written before the element
}

type c02Corrupt struct {
	Kind string `json:"kind"` // truncate flip insert delete
	Pos  int    `json:"pos"`  // permille of the stream length
	Byte int    `json:"byte"`
}

type c02Case struct {
	Header  string      `json:"header"` // client component ws
	Decl    bool        `json:"decl"`
	Elems   []c02Elem   `json:"elems"`
	Chunks  []int       `json:"chunks"`
	Corrupt *c02Corrupt `json:"corrupt,omitempty"`
	// Lead: this many plain stanzas (about 100 bytes each) precede the generated elements on the same stream, so that
	// the decoder has already consumed tens of kilobytes to a megabyte when it reaches them
	Lead int `json:"lead,omitempty"`
}

// all returns the top-level elements of the stream: the leading plain stanzas, then the generated ones.
func (c *c02Case) all() []c02Elem {
	if c.Lead == 0 {
		return c.Elems
	}
	out := make([]c02Elem, 0, c.Lead+len(c.Elems))
	for i := 0; i < c.Lead; i++ {
		e := c02Elem{Id: fmt.Sprintf("L%d", i), From: "a@x.org/r", To: "me@x.org"}
		switch i % 3 {
		case 0:
			e.Kind, e.Type = "message", "chat"
			e.Kids = []c02Child{{Kind: "literal", Text: "<body>0123456789 0123456789 0123456789</body>"}}
		case 1:
			e.Kind = "presence"
		default:
			e.Kind, e.Type = "iq", "result"
		}
		out = append(out, e)
	}
	return append(out, c.Elems...)
}

const (
	nsClient    = "jabber:client"
	nsComponent = "jabber:component:accept"
	nsStreamNS  = "http://etherx.jabber.org/streams"
	nsSASL      = "urn:ietf:params:xml:ns:xmpp-sasl"
	nsSM        = "urn:xmpp:sm:3"
)

var c02MsgLiterals = []string{
	`<body>hello &amp; &lt;bye&gt;</body>`, `<subject>s</subject>`, `<thread>t1</thread>`,
	`<active xmlns='http://jabber.org/protocol/chatstates'/>`,
	`<request xmlns='urn:xmpp:receipts'/>`,
	`<x xmlns='jabber:x:oob'><url>http://x/?a=1&amp;b=2</url></x>`,
	`<html xmlns='http://jabber.org/protocol/xhtml-im'><body xmlns='http://www.w3.org/1999/xhtml'><p>hi<br/></p></body></html>`,
	`<error type='cancel'><item-not-found xmlns='urn:ietf:params:xml:ns:xmpp-stanzas'/></error>`,
	`<body><![CDATA[<message>not an element</message>]]></body>`,
	`<delegation xmlns='urn:xmpp:delegation:1'><forwarded xmlns='urn:xmpp:forward:0'><delay xmlns='urn:xmpp:delay' stamp='2002-09-10T23:08:25Z'/><message xmlns='jabber:client' id='inner' to='x@y'><body>b</body></message></forwarded></delegation>`,
	`<event xmlns='http://jabber.org/protocol/pubsub#event'><items node='n'><item id='i1' publisher='p@q'><entry xmlns='http://www.w3.org/2005/Atom'><title>t</title></entry></item><retract id='i2'/></items></event>`,
	`<event xmlns='http://jabber.org/protocol/pubsub#event'><collection node='c'><associate node='n1'/></collection></event>`,
	`<event xmlns='http://jabber.org/protocol/pubsub#event'><configuration node='n'><x xmlns='jabber:x:data' type='result'><field var='FORM_TYPE' type='hidden'><value>http://jabber.org/protocol/pubsub#node_config</value></field></x></configuration></event>`,
	`<event xmlns='http://jabber.org/protocol/pubsub#event'><purge node='n'/></event>`,
	`<event xmlns='http://jabber.org/protocol/pubsub#event'><delete node='n'><redirect uri='xmpp:a@b?;node=m'/></delete></event>`,
	`<event xmlns='http://jabber.org/protocol/pubsub#event'><subscription node='n' jid='a@b' subscription='subscribed'/></event>`,
	`<markable xmlns='urn:xmpp:chat-markers:0'/>`, `<received xmlns='urn:xmpp:chat-markers:0' id='m1'/>`,
	`<received xmlns='urn:xmpp:receipts' id='m1'/>`, `<no-store xmlns='urn:xmpp:hints'/>`,
	`<composing xmlns='http://jabber.org/protocol/chatstates'/>`,
}
var c02PresLiterals = []string{
	`<show>away</show>`, `<status>gone</status>`, `<priority>5</priority>`,
	`<x xmlns='http://jabber.org/protocol/muc'><history maxstanzas='3'/></x>`,
	`<c xmlns='http://jabber.org/protocol/caps' hash='sha-1' node='n' ver='v'/>`,
	`<x xmlns='http://jabber.org/protocol/muc'><password>pw</password><history maxchars='10' maxstanzas='3' seconds='60' since='2002-09-10T23:08:25Z'/></x>`,
	`<x xmlns='http://jabber.org/protocol/muc#user'><item affiliation='member' role='participant'/><status code='110'/></x>`,
	`<error type='wait'><resource-constraint xmlns='urn:ietf:params:xml:ns:xmpp-stanzas'/><text xmlns='urn:ietf:params:xml:ns:xmpp-stanzas'>later</text></error>`,
}
var c02IQLiterals = []string{
	`<query xmlns='jabber:iq:roster'><item jid='a@b'><group>g</group></item></query>`,
	`<query xmlns='http://jabber.org/protocol/disco#info'><identity category='c' type='t'/><feature var='f'/></query>`,
	`<bind xmlns='urn:ietf:params:xml:ns:xmpp-bind'><jid>a@b/c</jid></bind>`,
	`<query xmlns='jabber:iq:version'><name>n</name></query>`,
	`<error type='cancel'><service-unavailable xmlns='urn:ietf:params:xml:ns:xmpp-stanzas'/></error>`,
	`<delegation xmlns='urn:xmpp:delegation:1'><forwarded xmlns='urn:xmpp:forward:0'><iq xmlns='jabber:client' type='get' id='inner' from='a@b/c'><query xmlns='jabber:iq:version'/></iq></forwarded></delegation>`,
	`<delegation xmlns='urn:xmpp:delegation:1'><forwarded xmlns='urn:xmpp:forward:0'><delay xmlns='urn:xmpp:delay' stamp='2002-09-10T23:08:25Z'/><presence xmlns='jabber:client' id='inner'><show>dnd</show></presence></forwarded></delegation>`,
	`<command xmlns='http://jabber.org/protocol/commands' node='list' sessionid='s1' status='executing'><actions execute='next'><next/><prev/></actions><note type='info'>n</note><x xmlns='jabber:x:data' type='form'><title>t</title><field var='a' type='list-single' label='l'><value>1</value><option label='o'><value>1</value></option></field></x></command>`,
	`<pubsub xmlns='http://jabber.org/protocol/pubsub'><publish node='n'><item id='i'><x xmlns='urn:x:payload'>p</x></item></publish></pubsub>`,
	`<pubsub xmlns='http://jabber.org/protocol/pubsub'><subscription node='n' jid='a@b' subid='s' subscription='subscribed'/></pubsub>`,
	`<pubsub xmlns='http://jabber.org/protocol/pubsub#owner'><configure node='n'><x xmlns='jabber:x:data' type='form'><field var='pubsub#title'><value>t</value></field></x></configure></pubsub>`,
	`<pubsub xmlns='http://jabber.org/protocol/pubsub#owner'><affiliations node='n'><affiliation jid='a@b' affiliation='owner'/></affiliations></pubsub>`,
	`<pubsub xmlns='http://jabber.org/protocol/pubsub#owner'><subscriptions node='n'><subscription jid='a@b' subscription='subscribed'/></subscriptions></pubsub>`,
	`<pubsub xmlns='http://jabber.org/protocol/pubsub#owner'><delete node='n'><redirect uri='xmpp:a@b'/></delete></pubsub>`,
	`<pubsub xmlns='http://jabber.org/protocol/pubsub#owner'><purge node='n'/></pubsub>`,
	`<pubsub xmlns='http://jabber.org/protocol/pubsub#owner'><default><x xmlns='jabber:x:data' type='form'/></default></pubsub>`,
	`<query xmlns='http://jabber.org/protocol/disco#items' node='n'><item jid='a@b' node='m' name='x'/></query>`,
	`<set xmlns='urn:xmpp:iot:control' xml:lang='en'><boolean name='b' value='true'/><int name='i' value='3'/></set>`,
	`<session xmlns='urn:ietf:params:xml:ns:xmpp-session'/>`,
}
var c02FeatureLiterals = []string{
	`<starttls xmlns='urn:ietf:params:xml:ns:xmpp-tls'><required/></starttls>`,
	`<mechanisms xmlns='urn:ietf:params:xml:ns:xmpp-sasl'><mechanism>PLAIN</mechanism><mechanism>X-OAUTH2</mechanism></mechanisms>`,
	`<bind xmlns='urn:ietf:params:xml:ns:xmpp-bind'/>`, `<sm xmlns='urn:xmpp:sm:3'/>`,
	`<session xmlns='urn:ietf:params:xml:ns:xmpp-session'><optional/></session>`,
	`<c xmlns='http://jabber.org/protocol/caps' hash='sha-1' node='n' ver='v'/>`,
	// features named like the known ones, in other namespaces (an older protocol version, somebody else's extension)
	`<sm xmlns='urn:xmpp:sm:2'/>`, `<bind xmlns='urn:x:unknown'/>`, `<starttls xmlns='urn:x:unknown'><required/></starttls>`,
	`<mechanisms xmlns='urn:x:unknown'><mechanism>X-FOO</mechanism></mechanisms>`, `<session xmlns='urn:x:unknown'/>`,
	`<c xmlns='urn:x:unknown' hash='x'/>`, `<push xmlns='p1:push'/>`, `<rebind xmlns='p1:rebind'/>`, `<ack xmlns='p1:ack'/>`,
	`<compression xmlns='http://jabber.org/features/compress'><method>zlib</method></compression>`,
	`<register xmlns='http://jabber.org/features/iq-register'/>`, `<csi xmlns='urn:xmpp:csi:0'/>`,
}

var c02StanzaKinds = []string{"message", "presence", "iq"}
var c02OtherKinds = []string{"features", "error", "success", "failure", "enabled", "resumed", "resume", "r", "a", "failed", "handshake"}

func genC02Kids(t *rapid.T, kind string, depth int, nested *bool) []c02Child {
	max := 4
	if depth > 0 {
		max = 2
	}
	n := rapid.IntRange(0, max).Draw(t, "nkids")
	var out []c02Child
	for i := 0; i < n; i++ {
		switch rapid.IntRange(0, 9).Draw(t, "kidKind") {
		case 0:
			out = append(out, c02Child{Kind: "text", Text: rapid.SampledFrom([]string{" ", "\n  ", "plain", "a &amp; b", "&lt;message&gt;", "&#x41;&#66;", "é🙂"}).Draw(t, "text")})
		case 1:
			out = append(out, c02Child{Kind: "cdata", Text: rapid.SampledFrom([]string{"x", "</message>", "<iq>", "]] >", "</stream:stream>"}).Draw(t, "cdata")})
		case 2:
			out = append(out, c02Child{Kind: "comment", Text: rapid.SampledFrom([]string{" c ", "</presence>", "<message>"}).Draw(t, "comment")})
		case 3, 4:
			if depth == 0 {
				var lits []string
				switch kind {
				case "message":
					lits = c02MsgLiterals
				case "presence":
					lits = c02PresLiterals
				case "iq":
					lits = c02IQLiterals
				case "features":
					lits = c02FeatureLiterals
				}
				if len(lits) > 0 {
					lit := c02Child{Kind: "literal", Text: rapid.SampledFrom(lits).Draw(t, "literal")}
					if rapid.IntRange(0, 2).Draw(t, "insert") == 0 {
						lit.Ins = rapid.IntRange(1, 12).Draw(t, "insAt")
						lit.InsWhat = rapid.SampledFrom(c02Inserts).Draw(t, "insWhat")
					}
					out = append(out, lit)
					continue
				}
			}
			fallthrough
		case 5, 6:
			// unknown extension element, possibly with its own children
			c := c02Child{Kind: "elem", Name: rapid.SampledFrom([]string{"x", "forwarded", "ext", "body", "error", "query", "delay"}).Draw(t, "uname"),
				NS: rapid.SampledFrom([]string{"urn:x:unknown", "urn:xmpp:forward:0", "urn:xmpp:carbons:2", ""}).Draw(t, "uns")}
			if depth < 3 {
				c.Kids = genC02Kids(t, kind, depth+1, nested)
			}
			out = append(out, c)
		default:
			// a descendant named exactly like the enclosing stanza, in the same namespace
			if kind == "message" || kind == "presence" || kind == "iq" || kind == "features" || kind == "error" || kind == "failed" {
				c := c02Child{Kind: "nested"}
				if depth < 3 && rapid.Bool().Draw(t, "nestedKids") {
					c.Kids = genC02Kids(t, kind, depth+1, nested)
				}
				*nested = true
				out = append(out, c)
			}
		}
	}
	return out
}

func genC02Elem(t *rapid.T, header string, nested *bool) c02Elem {
	var e c02Elem
	switch rapid.IntRange(0, 9).Draw(t, "elemClass") {
	case 0, 1, 2, 3, 4, 5:
		e.Kind = rapid.SampledFrom(c02StanzaKinds).Draw(t, "skind")
	default:
		e.Kind = rapid.SampledFrom(c02OtherKinds).Draw(t, "okind")
		if e.Kind == "handshake" && header != "component" {
			e.Kind = "r"
		}
	}
	e.DQuote = rapid.Bool().Draw(t, "dq")
	e.Prefix = rapid.IntRange(0, 3).Draw(t, "prefix") == 0
	e.Gap = rapid.SampledFrom([]string{"", "", " ", "\n", "\n\n  \t"}).Draw(t, "gap")
	switch e.Kind {
	case "message", "presence", "iq":
		e.Id = rapid.StringMatching(`[a-zA-Z0-9_-]{0,8}`).Draw(t, "id")
		e.From = rapid.SampledFrom([]string{"", "a@x.org/r", "x.org", "rooms.x.org/nick &<>\"'"}).Draw(t, "from")
		e.To = rapid.SampledFrom([]string{"", "me@x.org", "comp.x.org"}).Draw(t, "to")
		e.Type = rapid.SampledFrom(append([]string{""}, c06Types[e.Kind]...)).Draw(t, "type")
		if e.Kind == "iq" && e.Type == "" {
			e.Type = "get"
		}
		e.Kids = genC02Kids(t, e.Kind, 0, nested)
	case "features", "error", "failed":
		e.Kids = genC02Kids(t, e.Kind, 0, nested)
	case "enabled", "resumed", "resume":
		e.Id = rapid.StringMatching(`[a-z0-9]{0,6}`).Draw(t, "smid")
		e.H = rapid.IntRange(0, 100000).Draw(t, "h")
	case "a":
		e.H = rapid.IntRange(0, 100000).Draw(t, "h")
	}
	switch e.Kind {
	case "enabled", "resumed", "resume", "a", "r", "success", "failure":
		// elements that are normally empty may carry anything as well ("whatever the element contains")
		if rapid.IntRange(0, 2).Draw(t, "oddKids") == 0 {
			e.Kids = genC02Kids(t, e.Kind, 1, nested)
		}
	}
	return e
}

func genC02(t *rapid.T) c02Case {
	var c c02Case
	c.Header = rapid.SampledFrom([]string{"client", "client", "component", "ws"}).Draw(t, "header")
	c.Decl = rapid.Bool().Draw(t, "decl")
	nested := false
	n := rapid.IntRange(0, 8).Draw(t, "nelems")
	for i := 0; i < n; i++ {
		c.Elems = append(c.Elems, genC02Elem(t, c.Header, &nested))
	}
	switch rapid.IntRange(0, 5).Draw(t, "tail") {
	case 0:
		c.Elems = append(c.Elems, c02Elem{Kind: "close"})
	case 1:
		c.Elems = append(c.Elems, c02Elem{Kind: "unknown-ns", Name: rapid.SampledFrom([]string{"foo", "message", "iq", "features"}).Draw(t, "uname"),
			NS: rapid.SampledFrom([]string{"urn:x:unknown", "jabber:server", "urn:ietf:params:xml:ns:xmpp-tls"}).Draw(t, "uns")})
	case 2:
		ns := rapid.SampledFrom([]string{"default", nsStreamNS, nsSASL, nsSM}).Draw(t, "unameNS")
		c.Elems = append(c.Elems, c02Elem{Kind: "unknown-name", Name: rapid.SampledFrom([]string{"foo", "auth", "enable", "stream", "open"}).Draw(t, "uname"), NS: ns})
	}
	// (rapid favours the ends of an integer range, so the rare class is tied to values from the middle)
	if l := rapid.IntRange(0, 199).Draw(t, "long"); l == 57 || l == 113 || l == 171 {
		switch rapid.IntRange(0, 19).Draw(t, "leadClass") {
		case 0:
			c.Lead = rapid.IntRange(9000, 12000).Draw(t, "lead") // beyond 1 MiB
			if !vh.Thorough() {
				c.Lead /= 4
			}
		case 1, 2, 3, 4:
			c.Lead = rapid.IntRange(2200, 4000).Draw(t, "lead") // beyond 256 KiB
		default:
			c.Lead = rapid.IntRange(500, 1200).Draw(t, "lead") // around 64 KiB
		}
	}
	nc := rapid.IntRange(0, 6).Draw(t, "nchunks")
	for i := 0; i < nc; i++ {
		if rapid.IntRange(0, 3).Draw(t, "chunkClass") == 0 {
			c.Chunks = append(c.Chunks, rapid.IntRange(1, 64).Draw(t, "chunk"))
		} else {
			c.Chunks = append(c.Chunks, rapid.IntRange(1, 3).Draw(t, "chunk"))
		}
	}
	if rapid.IntRange(0, 2).Draw(t, "corrupt") == 0 {
		c.Corrupt = &c02Corrupt{
			Kind: rapid.SampledFrom([]string{"truncate", "truncate", "flip", "insert", "delete"}).Draw(t, "ckind"),
			Pos:  rapid.IntRange(0, 1000).Draw(t, "cpos"),
			Byte: int(rapid.SampledFrom([]byte{'<', '>', '/', '&', '"', '\'', 0, 0xff, 'x', ' ', '!', '[', ']'}).Draw(t, "cbyte")),
		}
	}
	return c
}

// ---------------------------------------------------------------------------
// serialiser

type c02Ser struct {
	sb        strings.Builder
	defaultNS string
	ws        bool
	ends      []int // end offset of every top-level element
}

func (s *c02Ser) attr(e *c02Elem, k, v string) {
	q := "'"
	if e.DQuote {
		q = "\""
	}
	esc := strings.NewReplacer("&", "&amp;", "<", "&lt;", ">", "&gt;", "'", "&apos;", "\"", "&quot;").Replace(v)
	fmt.Fprintf(&s.sb, " %s=%s%s%s", k, q, esc, q)
}

func (s *c02Ser) kids(kids []c02Child, encl string, enclNS string) {
	for _, k := range kids {
		switch k.Kind {
		case "text":
			s.sb.WriteString(k.Text)
		case "cdata":
			s.sb.WriteString("<![CDATA[" + k.Text + "]]>")
		case "comment":
			s.sb.WriteString("<!--" + k.Text + "-->")
		case "literal":
			s.sb.WriteString(c02Insert(k.Text, k.Ins, k.InsWhat))
		case "elem":
			s.sb.WriteString("<" + k.Name)
			if k.NS != "" {
				s.sb.WriteString(" xmlns='" + k.NS + "'")
			}
			if len(k.Kids) == 0 {
				s.sb.WriteString("/>")
			} else {
				s.sb.WriteString(">")
				s.kids(k.Kids, encl, enclNS)
				s.sb.WriteString("</" + k.Name + ">")
			}
		case "nested":
			// same local name and namespace as the enclosing top-level element
			s.sb.WriteString("<" + encl + " xmlns='" + enclNS + "' id='inner' from='inner@x' type='inner'")
			if len(k.Kids) == 0 {
				s.sb.WriteString("/>")
			} else {
				s.sb.WriteString(">")
				s.kids(k.Kids, encl, enclNS)
				s.sb.WriteString("</" + encl + ">")
			}
		}
	}
}

func (e *c02Elem) nameNS(defaultNS string) (local, ns string) {
	switch e.Kind {
	case "message", "presence", "iq", "handshake":
		return e.Kind, defaultNS
	case "features", "error":
		return e.Kind, nsStreamNS
	case "success", "failure":
		return e.Kind, nsSASL
	case "enabled", "resumed", "resume", "r", "a", "failed":
		return e.Kind, nsSM
	case "unknown-ns":
		return e.Name, e.NS
	case "unknown-name":
		if e.NS == "default" {
			return e.Name, defaultNS
		}
		return e.Name, e.NS
	}
	return "", ""
}

func (s *c02Ser) elem(e *c02Elem) {
	s.sb.WriteString(e.Gap)
	if e.Kind == "close" {
		s.sb.WriteString("</stream:stream>")
		s.ends = append(s.ends, s.sb.Len())
		return
	}
	local, ns := e.nameNS(s.defaultNS)
	name := local
	switch {
	case ns == nsStreamNS && !s.ws && !e.Prefix:
		name = "stream:" + local // the prefix declared on the stream header
		s.sb.WriteString("<" + name)
	case ns == s.defaultNS && !s.ws && !e.Prefix:
		s.sb.WriteString("<" + name) // inherits the default namespace of the stream header
	case e.Prefix:
		name = "p:" + local
		s.sb.WriteString("<" + name + " xmlns:p='" + ns + "'")
	default:
		s.sb.WriteString("<" + name + " xmlns='" + ns + "'")
	}
	for _, kv := range [][2]string{{"type", e.Type}, {"id", e.Id}, {"from", e.From}, {"to", e.To}} {
		if kv[1] != "" && (e.Kind == "message" || e.Kind == "presence" || e.Kind == "iq") {
			s.attr(e, kv[0], kv[1])
		}
	}
	switch e.Kind {
	case "enabled":
		s.attr(e, "id", e.Id)
		s.attr(e, "resume", "true")
	case "resumed", "resume":
		s.attr(e, "previd", e.Id)
		s.attr(e, "h", fmt.Sprint(e.H))
	case "a":
		s.attr(e, "h", fmt.Sprint(e.H))
	}
	var inner strings.Builder
	switch e.Kind {
	case "error":
		inner.WriteString(`<host-unknown xmlns='urn:ietf:params:xml:ns:xmpp-streams'/><text xmlns='urn:ietf:params:xml:ns:xmpp-streams'>t</text>`)
	case "failure":
		inner.WriteString(`<not-authorized/><text>no</text>`)
	case "failed":
		inner.WriteString(`<unexpected-request xmlns='urn:ietf:params:xml:ns:xmpp-stanzas'/>`)
	case "handshake":
		inner.WriteString(`0123abcd`)
	}
	save := s.sb
	s.sb = strings.Builder{}
	enclNS := ns
	// when the element uses a prefix, descendants do not inherit its namespace; nested same-name
	// descendants always declare the namespace explicitly, see kids()
	s.kids(e.Kids, local, enclNS)
	kidsStr := s.sb.String()
	s.sb = save
	body := inner.String() + kidsStr
	if e.Prefix && ns != "" {
		// children written by kids() without namespace would fall into no namespace: fine, they are unknown anyway
	}
	if body == "" {
		s.sb.WriteString("/>")
	} else {
		s.sb.WriteString(">" + body + "</" + name + ">")
	}
	s.ends = append(s.ends, s.sb.Len())
}

func (c *c02Case) serialise() (string, []int) {
	s := &c02Ser{}
	if c.Decl {
		s.sb.WriteString("<?xml version='1.0'?>")
	}
	switch c.Header {
	case "client":
		s.defaultNS = nsClient
		s.sb.WriteString(`<stream:stream xmlns='jabber:client' xmlns:stream='http://etherx.jabber.org/streams' id='abc' from='x.org' version='1.0'>`)
	case "component":
		s.defaultNS = nsComponent
		s.sb.WriteString(`<stream:stream xmlns='jabber:component:accept' xmlns:stream='http://etherx.jabber.org/streams' id='abc' from='comp.x.org'>`)
	case "ws":
		s.defaultNS = nsClient
		s.ws = true
		s.sb.WriteString(`<open xmlns="urn:ietf:params:xml:ns:xmpp-framing" id="abc" from="x.org" version="1.0"/>`)
	}
	all := c.all()
	for i := range all {
		if s.ws && all[i].Kind == "close" {
			continue
		}
		s.elem(&all[i])
	}
	return s.sb.String(), s.ends
}

// ---------------------------------------------------------------------------
// reading

type chunkReader struct {
	data   []byte
	pos    int
	chunks []int
	i      int
}

func (r *chunkReader) Read(p []byte) (int, error) {
	if r.pos >= len(r.data) {
		return 0, io.EOF
	}
	n := len(p)
	if len(r.chunks) > 0 {
		n = r.chunks[r.i%len(r.chunks)]
		r.i++
		if n > len(p) {
			n = len(p)
		}
	}
	if n > len(r.data)-r.pos {
		n = len(r.data) - r.pos
	}
	copy(p, r.data[r.pos:r.pos+n])
	r.pos += n
	return n, nil
}

type c02Read struct {
	packets []stanza.Packet
	err     error
	initErr error
	calls   int
	hung    bool
	panicv  interface{}
}

func c02ReadAll(data string, chunks []int) (out c02Read) {
	done := make(chan struct{})
	go func() {
		defer close(done)
		defer func() {
			if r := recover(); r != nil {
				out.panicv = r
			}
		}()
		d := xml.NewDecoder(&chunkReader{data: []byte(data), chunks: chunks})
		if _, err := stanza.InitStream(d); err != nil {
			out.initErr = err
			return
		}
		for {
			out.calls++
			p, err := stanza.NextPacket(d)
			if err != nil {
				out.err = err
				return
			}
			out.packets = append(out.packets, p)
			if out.calls > len(data)+2 {
				return
			}
		}
	}()
	select {
	case <-done:
	case <-time.After(30 * time.Second):
		return c02Read{hung: true}
	}
	return
}

func c02Describe(p stanza.Packet) (kind, id, from, to, typ string, h int) {
	h = -1
	switch v := p.(type) {
	case stanza.Message:
		return "message", v.Id, v.From, v.To, string(v.Type), h
	case stanza.Presence:
		return "presence", v.Id, v.From, v.To, string(v.Type), h
	case *stanza.IQ:
		return "iq", v.Id, v.From, v.To, string(v.Type), h
	case stanza.StreamFeatures:
		return "features", "", "", "", "", h
	case stanza.StreamError:
		return "error", "", "", "", "", h
	case stanza.SASLSuccess:
		return "success", "", "", "", "", h
	case stanza.SASLFailure:
		return "failure", "", "", "", "", h
	case stanza.SMEnabled:
		return "enabled", v.Id, "", "", "", h
	case stanza.SMResumed:
		return "resumed", v.PrevId, "", "", "", hField(v, h)
	case stanza.SMResume:
		return "resume", v.PrevId, "", "", "", hField(v, h)
	case stanza.SMRequest:
		return "r", "", "", "", "", h
	case stanza.SMAnswer:
		return "a", "", "", "", "", int(v.H)
	case stanza.SMFailed:
		return "failed", "", "", "", "", h
	case stanza.Handshake:
		return "handshake", "", "", "", "", h
	case stanza.StreamClosePacket:
		return "close", "", "", "", "", h
	}
	return fmt.Sprintf("%T", p), "", "", "", "", h
}

func (c *c02Case) effective() []c02Elem {
	var out []c02Elem
	for _, e := range c.all() {
		if c.Header == "ws" && e.Kind == "close" {
			continue
		}
		out = append(out, e)
	}
	return out
}

// c02ErrClass reduces an error text to its shape (names and numbers removed), so that different root causes get
// different class keys.
// hField reads the field H of a stream-management element, whether it is declared as a number or as a pointer to one
// (read by reflection, so that the harness still builds when that declaration changes).
func hField(v interface{}, absent int) int {
	f := reflect.ValueOf(v).FieldByName("H")
	if !f.IsValid() {
		return absent
	}
	if f.Kind() == reflect.Ptr {
		if f.IsNil() {
			return absent
		}
		f = f.Elem()
	}
	if f.CanUint() {
		return int(f.Uint())
	}
	if f.CanInt() {
		return int(f.Int())
	}
	return absent
}

func c02ErrClass(err error) string {
	t := err.Error()
	t = regexp.MustCompile("<[^>]{13,}>").ReplaceAllString(t, "<>") // short element names are kept: they tell the sites apart
	t = regexp.MustCompile("[a-z0-9#:/.-]*(:|/)[a-z0-9#:/.-]+").ReplaceAllString(t, "NS")
	t = regexp.MustCompile("[0-9]+").ReplaceAllString(t, "N")
	t = regexp.MustCompile("[^A-Za-z<>*().]+").ReplaceAllString(t, "-")
	if len(t) > 90 {
		t = t[:90]
	}
	return strings.Trim(t, "-")
}

func runC02(c c02Case) vh.Result {
	var res vh.Result
	data, ends := c.serialise()
	elems := c.effective()
	res.Label("header-" + c.Header)
	hasNested := strings.Contains(data, "id='inner'")
	smallChunk := false
	for _, n := range c.Chunks {
		if n < 8 {
			smallChunk = true
		}
	}
	unknownKid := strings.Contains(data, "urn:x:unknown") || strings.Contains(data, "urn:xmpp:forward:0")
	res.NonTrivial = len(elems) >= 2 && (hasNested || unknownKid || smallChunk || c.Corrupt != nil)
	if hasNested {
		res.Label("nested-same-name")
	}
	if smallChunk {
		res.Label("small-reads")
	}
	if len(data) > 64<<10 {
		res.Label("stream>64KiB")
	}
	if len(data) > 256<<10 {
		res.Label("stream>256KiB")
	}

	judgePrefix := func(how string, r c02Read, upto int, expectErrAfter bool) {
		// the first `upto` elements must come back in order with the right kind and addressing
		if r.hung {
			res.Fail("hang", "%s: reading did not finish within 30 s; stream=%s", how, trunc(data, 800))
			return
		}
		if r.panicv != nil {
			res.Fail("panic", "%s: panic %v; stream=%s", how, r.panicv, trunc(data, 800))
			return
		}
		if r.initErr != nil {
			res.Fail("header-rejected", "%s: stream header rejected: %v; stream=%s", how, r.initErr, trunc(data, 300))
			return
		}
		for i := 0; i < upto; i++ {
			e := elems[i]
			if e.Kind == "unknown-ns" || e.Kind == "unknown-name" {
				if len(r.packets) != i || r.err == nil {
					res.Fail("unknown-element-accepted", "%s: element %d (%s in %s) is unknown but reading gave %d packets, err=%v; stream=%s", how, i, e.Name, e.NS, len(r.packets), r.err, trunc(data, 800))
				}
				return
			}
			if i >= len(r.packets) {
				key := "packet-missing"
				if e.Kind == "message" || e.Kind == "presence" {
					key += ":" + e.Kind
				}
				if r.err != nil && !strings.Contains(r.err.Error(), "EOF") {
					key += ":" + c02ErrClass(r.err)
				}
				res.Fail(key, "%s: element %d (%s id=%q) not returned: got %d packets then error %v; stream=%s", how, i, e.Kind, e.Id, len(r.packets), r.err, trunc(data, 1200))
				return
			}
			kind, id, from, to, typ, h := c02Describe(r.packets[i])
			if kind != e.Kind {
				res.Fail("wrong-kind", "%s: element %d is a %s but NextPacket returned %s; stream=%s", how, i, e.Kind, kind, trunc(data, 1200))
				return
			}
			switch e.Kind {
			case "message", "presence", "iq":
				if id != e.Id || from != e.From || to != e.To || typ != e.Type {
					res.Fail("wrong-addressing:"+e.Kind, "%s: element %d (%s) has id=%q from=%q to=%q type=%q but the packet has id=%q from=%q to=%q type=%q; stream=%s", how, i, e.Kind, e.Id, e.From, e.To, e.Type, id, from, to, typ, trunc(data, 1200))
					return
				}
			case "enabled", "resumed", "resume":
				if id != e.Id || (e.Kind != "enabled" && h != e.H) {
					res.Fail("wrong-attrs:"+e.Kind, "%s: element %d (%s id=%q h=%d) came back with id=%q h=%d", how, i, e.Kind, e.Id, e.H, id, h)
					return
				}
			case "a":
				if h != e.H {
					res.Fail("wrong-attrs:a", "%s: element %d <a h=%d/> came back with h=%d", how, i, e.H, h)
					return
				}
			}
		}
		if len(r.packets) > upto {
			res.Fail("extra-packet", "%s: %d packets returned for %d complete top-level elements (extra: %T); stream=%s", how, len(r.packets), upto, r.packets[upto], trunc(data, 1200))
			return
		}
		if expectErrAfter && r.err == nil {
			res.Fail("no-error-at-end", "%s: no error after the last element; stream=%s", how, trunc(data, 600))
		}
	}

	if c.Corrupt == nil {
		base := c02ReadAll(data, nil)
		judgePrefix("single read", base, len(elems), true)
		if len(res.Violations) == 0 && len(c.Chunks) > 0 {
			ch := c02ReadAll(data, c.Chunks)
			judgePrefix(fmt.Sprintf("reads of %v bytes", c.Chunks), ch, len(elems), true)
			if len(res.Violations) == 0 && !reflect.DeepEqual(base.packets, ch.packets) {
				res.Fail("chunking-changes-packets", "packets differ between a single read and reads of %v bytes; stream=%s", c.Chunks, trunc(data, 1200))
			}
		}
		return res
	}
	// corrupted input
	pos := c.Corrupt.Pos * len(data) / 1000
	if pos > len(data) {
		pos = len(data)
	}
	var mutated string
	switch c.Corrupt.Kind {
	case "truncate":
		mutated = data[:pos]
	case "flip":
		if pos >= len(data) {
			pos = len(data) - 1
		}
		b := []byte(data)
		b[pos] = byte(c.Corrupt.Byte)
		mutated = string(b)
	case "insert":
		mutated = data[:pos] + string([]byte{byte(c.Corrupt.Byte)}) + data[pos:]
	case "delete":
		if pos >= len(data) {
			pos = len(data) - 1
		}
		mutated = data[:pos] + data[pos+1:]
	}
	res.Label("corrupt-" + c.Corrupt.Kind)
	r := c02ReadAll(mutated, c.Chunks)
	if r.hung {
		res.Fail("hang", "reading corrupted input did not finish within 30 s; input=%q", trunc(mutated, 800))
		return res
	}
	if r.panicv != nil {
		res.Fail("panic", "panic %v on corrupted input %q", r.panicv, trunc(mutated, 800))
		return res
	}
	if r.initErr == nil && r.err == nil {
		res.Fail("no-error-on-malformed", "reading never returned an error (%d calls) on input %q", r.calls, trunc(mutated, 800))
		return res
	}
	if c.Corrupt.Kind == "truncate" && r.initErr == nil {
		// prefix consistency: exactly the elements that end at or before the cut, then an error
		complete := 0
		for _, e := range ends {
			if e <= pos {
				complete++
			}
		}
		// stop at the first unknown element: it yields an error as soon as its start tag was read
		for i := 0; i < complete && i < len(elems); i++ {
			if elems[i].Kind == "unknown-ns" || elems[i].Kind == "unknown-name" {
				complete = i + 1
				break
			}
		}
		if complete > len(elems) {
			complete = len(elems)
		}
		// an unknown element whose start tag is complete errors even if the element is cut later
		data = mutated
		judgePrefix(fmt.Sprintf("truncated at %d", pos), r, complete, true)
	}
	return res
}

var c02 = vh.Define(&vh.Def[c02Case]{
	Property: "C02", Name: "stream",
	Rule: "streams generated from a grammar: client / component / WebSocket header, 0-8 top-level elements (message, presence, iq with known extensions (every registered payload with a hand-written decoder: commands, delegation / forwarded, pubsub events and owner requests, MUC, data forms ..., a third of them with an unregistered element, a delay stamp or a comment put behind one of their start tags), unknown extensions, text, CDATA, comments and descendants named like the enclosing stanza in the same namespace at depth 1-4; stream features/error, SASL success/failure, every stream-management element, handshake), optional unknown-namespace / unknown-name element or stream close at the end; in 0.5 % of the cases 500-12000 plain stanzas (500-4000 in the quick tier) precede them on the same stream (64 KiB to beyond 1 MiB already consumed by the decoder); own serialiser varying quoting, prefix vs default namespace, self-closing tags and white space, recording where each top-level element ends; a segmentation (read sizes 1-64, weighted to 1-3); one third of the cases are corrupted (truncation at a generated offset, byte flip, insert, delete). Oracle: k-th NextPacket result has the kind and id/from/to/type (or h/previd) of the k-th element; unknown elements give an error at their index; same packets for every segmentation (reflect.DeepEqual); truncation returns exactly the elements that end before the cut and then an error; corrupted input never panics, never hangs (30 s watchdog) and ends in an error. non-trivial = >= 2 top-level elements and (nested same-name descendant, unknown child, a read size < 8, or a corruption)",
	Quick: 30000, Thorough: 3000000,
	Gen: genC02, Run: runC02,
})

func TestC02_stream(t *testing.T)  { c02.Check(t) }
func TestC02_Regress(t *testing.T) { vh.Regress(t, "C02") }

// FuzzC02 feeds arbitrary bytes to the stream reader: no panic, no hang, and
// an error after finitely many calls.
func FuzzC02(f *testing.F) {
	f.Add([]byte(clientStreamHeader + `<message id='1'><body>x</body></message></stream:stream>`))
	f.Add([]byte(clientStreamHeader + `<iq type='get' id='1'><query xmlns='jabber:iq:roster'/></iq><r xmlns='urn:xmpp:sm:3'/>`))
	f.Add([]byte(componentStreamHeader + `<handshake/><presence><x xmlns='urn:x:u'><presence xmlns='jabber:component:accept'/></x></presence>`))
	f.Add([]byte(clientStreamHeader + `<stream:features><starttls xmlns='urn:ietf:params:xml:ns:xmpp-tls'><required/></starttls></stream:features><failed xmlns='urn:xmpp:sm:3'><x/></failed>`))
	f.Add([]byte(`<open xmlns="urn:ietf:params:xml:ns:xmpp-framing"/><message xmlns='jabber:client'><![CDATA[x]]><!--c--></message>`))
	f.Add([]byte(clientStreamHeader + `<message><error type='cancel'><gone xmlns='urn:ietf:params:xml:ns:xmpp-stanzas'>x</gone></error><delegation xmlns='urn:xmpp:delegation:1'><forwarded xmlns='urn:xmpp:forward:0'><iq type='set'><command xmlns='http://jabber.org/protocol/commands'><x xmlns='jabber:x:data'/></command></iq></forwarded></delegation></message>`))
	f.Fuzz(func(t *testing.T, data []byte) {
		if len(data) > 1<<16 {
			return
		}
		r := c02ReadAll(string(data), nil)
		if r.hung {
			t.Fatalf("reading did not finish within 30 s")
		}
		if r.panicv != nil {
			t.Fatalf("panic: %v", r.panicv)
		}
		if r.initErr == nil && r.err == nil {
			t.Fatalf("no error after %d calls on %d bytes", r.calls, len(data))
		}
	})
}
