package harness

// C08 — each send puts exactly the serialized stanza on the wire once, even
// concurrently; a failed write is reported to the caller.

import (
	"encoding/xml"
	"fmt"
	"io"
	"os"
	"strings"
	"sync"
	"testing"
	"time"

	xmpp "gosrc.io/xmpp"
	"gosrc.io/xmpp/stanza"
	"pgregory.net/rapid"
	"verifharness/peer"
	"verifharness/vh"
)

type c08Case struct {
	Entity    string `json:"entity"`    // client component
	Transport string `json:"transport"` // tcp tls ws
	SM        bool   `json:"sm"`
	Logger    bool   `json:"logger"`
	G         int    `json:"g"`
	K         int    `json:"k"`
	SizeClass int    `json:"size_class"` // 0 small, 1 mixed, 2 large (up to 64 KB)
	Spice     string `json:"spice"`      // text put into every payload (format verbs, escapes, template syntax, non-ASCII); XML-safe as it is also used raw
	AfterDisc bool   `json:"after_disconnect"`
	// PeerDrops (WebSocket only, instead of AfterDisc): at the end the server drops the connection; once the loss has
	// been reported a send cannot succeed any more and must say so
	PeerDrops bool `json:"peer_drops,omitempty"`
	// LogFault > 0 (with Logger): every LogFault-th write to the traffic log is short (half the bytes, io.ErrShortWrite).
	// A send may then fail, but whatever it returns, the wire must stay exact.
	LogFault int `json:"log_fault,omitempty"`
}

// faultyLog is a traffic-log sink that short-writes every n-th call.
type faultyLog struct {
	mu    sync.Mutex
	calls int
	every int
	w     *os.File
}

func (f *faultyLog) Write(p []byte) (int, error) {
	f.mu.Lock()
	f.calls++
	bad := f.every > 0 && f.calls%f.every == 0 && len(p) > 1
	f.mu.Unlock()
	if bad {
		_, _ = f.w.Write(p[:len(p)/2])
		return len(p) / 2, io.ErrShortWrite
	}
	return f.w.Write(p)
}

func genC08(t *rapid.T) c08Case {
	c := c08Case{
		Entity:    rapid.SampledFrom([]string{"client", "client", "client", "component"}).Draw(t, "entity"),
		Transport: "tcp",
		G:         rapid.IntRange(1, 16).Draw(t, "g"),
		K:         rapid.IntRange(1, 50).Draw(t, "k"),
		SizeClass: rapid.IntRange(0, 2).Draw(t, "sizeClass"),
		Logger:    rapid.IntRange(0, 2).Draw(t, "logger") == 0,
		AfterDisc: rapid.IntRange(0, 3).Draw(t, "afterDisc") == 0,
		PeerDrops: rapid.IntRange(0, 1).Draw(t, "peerDrops") == 0,
	}
	c.Spice = rapid.SampledFrom(c08Spices).Draw(t, "spice")
	if c.Entity == "client" {
		c.Transport = rapid.SampledFrom([]string{"tcp", "tcp", "tls", "ws"}).Draw(t, "transport")
		c.SM = rapid.Bool().Draw(t, "sm")
	}
	if c.Logger && c.Entity == "client" && c.Transport != "ws" && rapid.Bool().Draw(t, "logFault") {
		c.LogFault = rapid.IntRange(2, 9).Draw(t, "logFaultEvery")
	}
	if c.SizeClass == 2 && c.G*c.K > 200 {
		c.K = 200/c.G + 1
	}
	return c
}

// text that a careless write path could interpret: printf verbs, escapes, template and shell syntax, non-ASCII
var c08Spices = []string{"", "", "100% sure %s %d %v %n %% %!", "back\\slash \\n \\x00 \\", "${HOME} $(id) {{.}} {0}", "é ü 中 🙂 \u200b", "%", "%%%", "tab\there", "'single' \"double\""}

// c08Payload builds the i-th send of goroutine g: returns kind, the packet (Send / SendIQ) or raw string, and the expected wire bytes.
func c08Payload(c c08Case, g, k int) (kind string, pkt stanza.Packet, raw string, want string) {
	id := fmt.Sprintf("g%d-k%d", g, k)
	size := 10
	switch c.SizeClass {
	case 1:
		size = []int{10, 200, 3000, 9000}[(g+k)%4]
	case 2:
		size = []int{1000, 20000, 64000, 31000}[(g*7+k)%4]
	}
	if c.Transport == "ws" && size > 30000 {
		size = 30000 // the WebSocket peer and transport limit messages to 32 KB
	}
	body := strings.Repeat(string(rune('a'+(g%26))), size) + c.Spice
	switch (g + 2*k) % 4 {
	case 0, 1:
		m := stanza.NewMessage(stanza.Attrs{To: "a@localhost", Id: id, Type: stanza.MessageTypeChat})
		m.Body = body + " <&>"
		b, _ := xml.Marshal(m)
		return "send", m, "", string(b)
	case 2:
		raw = "<message to='a@localhost' id='" + id + "'><body>" + body + "</body></message>"
		return "sendraw", nil, raw, raw
	default:
		iq, _ := stanza.NewIQ(stanza.Attrs{Type: stanza.IQTypeGet, Id: id, To: "localhost"})
		iq.Payload = &stanza.DiscoInfo{Node: body}
		b, _ := xml.Marshal(iq)
		return "sendiq", iq, "", string(b)
	}
}

func runC08(c c08Case) vh.Result {
	var res vh.Result
	res.Label(fmt.Sprintf("%s-%s", c.Entity, c.Transport))
	res.NonTrivial = (c.G >= 2 && c.K >= 5) || c.AfterDisc
	if c.G >= 2 && c.K >= 5 {
		res.Label("concurrent")
	}
	total := c.G * c.K
	var mu sync.Mutex
	got := map[string][]string{} // id -> raw elements received
	var garbage []string
	peerEnd := "" // why the peer stopped reading, if it did
	record := func(id, raw string) {
		mu.Lock()
		got[id] = append(got[id], raw)
		mu.Unlock()
	}
	countLocked := func() int { // caller holds mu
		n := 0
		for id, l := range got {
			if strings.HasPrefix(id, "g") {
				n += len(l)
			}
		}
		return n
	}
	count := func() int {
		mu.Lock()
		defer mu.Unlock()
		n := 0
		for id, l := range got {
			if strings.HasPrefix(id, "g") {
				n += len(l)
			}
		}
		return n + len(garbage)
	}
	ready := make(chan bool, 1)
	script := &peer.Script{Mechs: []string{"PLAIN"}, OfferSM: c.SM, OfferTLS: c.Transport == "tls", Cert: "valid"}
	var sender xmpp.Sender
	var disconnect func() error
	var wsRec *recorder
	dropNow := make(chan struct{})
	var logFile *os.File
	if c.Logger {
		f, err := os.CreateTemp("", "verif-c08-*.log")
		if err == nil {
			logFile = f
			defer os.Remove(f.Name())
			defer f.Close()
		}
	}
	if c.Transport == "ws" {
		srv, err := peer.ListenWS("xmpp", func(wc *peer.WSConn) {
			out := wc.WSNegotiate(script, 10*time.Second)
			ready <- out.Established
			if !out.Established {
				return
			}
			go func() {
				<-dropNow
				wc.DropTCP(2 * time.Second)
			}()
			if out.First != nil {
				record(out.First.Attr["id"], out.First.Raw)
			}
			for {
				ev := wc.Recv(60 * time.Second)
				switch ev.Kind {
				case "elem":
					record(ev.Attr["id"], ev.Raw)
				case "error", "ws":
					mu.Lock()
					garbage = append(garbage, ev.Raw)
					mu.Unlock()
				default:
					return
				}
			}
		})
		if err != nil {
			res.Fail("harness", "listen: %v", err)
			return res
		}
		defer srv.Close()
		cl, wsrec, cfg, err := newTestClientCfg(srv.URL, clientOpt{Insecure: true, SM: c.SM})
		if err != nil {
			res.Fail("harness", "NewClient: %v", err)
			return res
		}
		_ = cfg
		wsRec = wsrec
		if logFile != nil {
			xmpp.VerifGetTransport(cl).LogTraffic(logFile)
		}
		if err := cl.Connect(); err != nil {
			res.Fail("harness-connect", "Connect: %v", err)
			return res
		}
		sender, disconnect = cl, cl.Disconnect
	} else {
		srv, err := peer.Listen(func(pc *peer.Conn) {
			if c.Entity == "component" {
				if ev := pc.ExpectOpen(10 * time.Second); ev.Kind != "open" {
					ready <- false
					return
				}
				pc.Send("<?xml version='1.0'?><stream:stream xmlns='jabber:component:accept' xmlns:stream='http://etherx.jabber.org/streams' from='comp.localhost' id='sid'>")
				if ev := pc.NextElem(10 * time.Second); ev.Kind != "elem" {
					ready <- false
					return
				}
				pc.Send("<handshake/>")
				ready <- true
			} else {
				out := pc.Negotiate(script, 10*time.Second)
				ready <- out.Established
				if !out.Established {
					return
				}
				if out.First != nil {
					record(out.First.Attr["id"], out.First.Raw)
				}
			}
			for {
				ev := pc.NextElem(60 * time.Second)
				switch ev.Kind {
				case "elem":
					record(ev.Attr["id"], ev.Raw)
				case "close":
					pc.Send("</stream:stream>")
					pc.GracefulClose(time.Second)
					return
				case "error":
					mu.Lock()
					garbage = append(garbage, ev.Err+": "+ev.Raw)
					mu.Unlock()
					pc.Discard(30 * time.Second) // keep the socket flowing so that blocked senders return
					return
				default:
					mu.Lock()
					peerEnd = ev.Kind + " " + ev.Err
					mu.Unlock()
					return
				}
			}
		})
		if err != nil {
			res.Fail("harness", "listen: %v", err)
			return res
		}
		defer srv.Close()
		if c.Entity == "component" {
			router := xmpp.NewRouter()
			comp, err := xmpp.NewComponent(xmpp.ComponentOptions{
				TransportConfiguration: xmpp.TransportConfiguration{Address: srv.Addr, Domain: "comp.localhost", ConnectTimeout: 1},
				Domain:                 "comp.localhost", Secret: "s"}, router, func(error) {})
			if err != nil {
				res.Fail("harness", "NewComponent: %v", err)
				return res
			}
			if err := comp.Connect(); err != nil {
				res.Fail("harness-connect", "Connect: %v", err)
				return res
			}
			if logFile != nil {
				// the component creates its transport in Connect: traffic logging cannot be switched on before; skip
			}
			sender, disconnect = comp, comp.Disconnect
		} else {
			cl, _, cfg, err := newTestClientCfg(srv.Addr, clientOpt{Insecure: c.Transport != "tls", SM: c.SM})
			if err != nil {
				res.Fail("harness", "NewClient: %v", err)
				return res
			}
			_ = cfg
			var flog *faultyLog
			if logFile != nil {
				flog = &faultyLog{w: logFile} // faults are switched on after the session is up
				xmpp.VerifGetTransport(cl).LogTraffic(flog)
			}
			if err := cl.Connect(); err != nil {
				res.Fail("harness-connect", "Connect: %v", err)
				return res
			}
			if flog != nil && c.LogFault > 0 {
				res.Label("faulty-traffic-log")
				flog.mu.Lock()
				flog.every = c.LogFault
				flog.mu.Unlock()
			}
			sender, disconnect = cl, cl.Disconnect
		}
	}
	select {
	case ok := <-ready:
		if !ok {
			res.Fail("harness-not-established", "session not established")
			return res
		}
	case <-time.After(10 * time.Second):
		res.Fail("harness", "peer not ready")
		return res
	}
	// concurrent sends
	type sent struct {
		id, want, kind string
		err            error
	}
	results := make([][]sent, c.G)
	var wg sync.WaitGroup
	var panics []string
	for g := 0; g < c.G; g++ {
		wg.Add(1)
		go func(g int) {
			defer wg.Done()
			defer func() {
				if r := recover(); r != nil {
					mu.Lock()
					panics = append(panics, fmt.Sprint(r))
					mu.Unlock()
				}
			}()
			for k := 0; k < c.K; k++ {
				kind, pkt, raw, want := c08Payload(c, g, k)
				var err error
				switch kind {
				case "send":
					err = sender.Send(pkt)
				case "sendraw":
					err = sender.SendRaw(raw)
				case "sendiq":
					_, err = sender.SendIQ(ctxShort(), pkt.(*stanza.IQ))
				}
				results[g] = append(results[g], sent{id: fmt.Sprintf("g%d-k%d", g, k), want: want, kind: kind, err: err})
			}
		}(g)
	}
	wg.Wait()
	desc := fmt.Sprintf("%+v", c)
	if len(panics) > 0 {
		res.Fail("panic-in-send", "%s: %v", desc, panics)
		return res
	}
	var okIDs []string // sends that reported success: these must arrive
	for _, l := range results {
		for _, s := range l {
			if s.err == nil {
				okIDs = append(okIDs, s.id)
			}
		}
	}
	allOKArrived := func() bool {
		mu.Lock()
		defer mu.Unlock()
		for _, id := range okIDs {
			if len(got[id]) == 0 {
				return false
			}
		}
		return true
	}
	// wait until every stanza whose send succeeded has arrived, something unparsable arrived, or nothing new has arrived
	// for a while (stanzas of sends that reported an error may arrive as well: they do not end the wait)
	lastN, lastChange := -1, time.Now()
	waitFor(vh.Margin(8*time.Second), func() bool {
		mu.Lock()
		bad := len(garbage) > 0
		mu.Unlock()
		n := count()
		if n != lastN {
			lastN, lastChange = n, time.Now()
		}
		return bad || allOKArrived() || time.Since(lastChange) > vh.Margin(700*time.Millisecond)
	})
	time.Sleep(vh.Margin(15 * time.Millisecond))
	mu.Lock()
	if len(garbage) > 0 {
		res.Fail("wire-not-wellformed", "%s: the peer could not parse what was written (interleaved or truncated stanzas?): %s", desc, trunc(garbage[0], 300))
		mu.Unlock()
		go func() { _ = disconnect() }()
		return res
	}
	for _, l := range results {
		for _, s := range l {
			recv := got[s.id]
			switch {
			case s.err != nil && c.LogFault > 0:
				// the traffic log failed: the call may report that; the wire is judged by the other cases only if it returned nil
				if len(recv) > 1 {
					res.Fail("stanza-duplicated", "%s: %s arrived %d times", desc, s.id, len(recv))
				} else if len(recv) == 1 && recv[0] != s.want {
					res.Fail("wire-bytes-differ", "%s: %s (%s) arrived as %s, expected %s", desc, s.id, s.kind, trunc(recv[0], 200), trunc(s.want, 200))
				}
			case s.err != nil && len(recv) == 0:
				// failed send, nothing arrived: consistent (not expected on a healthy connection)
				res.Fail("send-error-on-healthy-connection", "%s: %s of %s returned %v", desc, s.kind, s.id, s.err)
			case s.err == nil && len(recv) == 0:
				res.Fail("t/sent-stanza-lost", "%s: %s of %s returned nil but the stanza never reached the peer (%d of %d arrived; peer stopped reading: %q)", desc, s.kind, s.id, countLocked(), total, peerEnd)
			case len(recv) > 1:
				res.Fail("stanza-duplicated", "%s: %s arrived %d times", desc, s.id, len(recv))
			case recv[0] != s.want:
				res.Fail("wire-bytes-differ", "%s: %s (%s) arrived as %s, expected %s", desc, s.id, s.kind, trunc(recv[0], 200), trunc(s.want, 200))
			}
			if len(res.Violations) > 3 {
				break
			}
		}
	}
	for id, l := range got {
		if !strings.HasPrefix(id, "g") && id != "" {
			res.Fail("foreign-element", "%s: the peer received an element nobody sent: %s", desc, trunc(l[0], 200))
		}
	}
	mu.Unlock()
	if c.SM && c.Entity == "client" && len(res.Violations) == 0 {
		// with stream management every accepted stanza is held
		cl := sender.(*xmpp.Client)
		if q := cl.Session.SMState.UnAckQueue; q != nil {
			q.RLock()
			held := map[string]int{}
			for _, u := range q.Uslice {
				held[u.Stz]++
			}
			q.RUnlock()
			for _, l := range results {
				for _, s := range l {
					if s.err == nil && held[s.want] != 1 {
						res.Fail("accepted-stanza-not-held", "%s: %s was accepted but is held %d times in the unacknowledged queue", desc, s.id, held[s.want])
						break
					}
				}
			}
		}
	}
	if c.PeerDrops && c.Transport == "ws" && wsRec != nil && len(res.Violations) == 0 {
		res.Label("send-after-reported-loss")
		close(dropNow)
		if !waitFor(vh.Margin(5*time.Second), func() bool { return wsRec.count(xmpp.StateDisconnected) >= 1 }) {
			res.Fail("t/loss-not-reported", "%s: the server dropped the WebSocket connection; no Disconnected event", desc)
			return res
		}
		m := stanza.NewMessage(stanza.Attrs{To: "a@localhost", Id: "after-loss"})
		m.Body = "x"
		err1 := sender.Send(m)
		err2 := sender.SendRaw("<message id='after-loss-raw'/>")
		if err1 == nil || err2 == nil {
			res.Fail("send-after-loss-succeeds", "%s: the loss of the WebSocket connection had been reported, yet Send returned %v and SendRaw %v: nothing can have been written", desc, err1, err2)
		}
		go func() { _ = disconnect() }()
		return res
	}
	// sends after Disconnect must fail cleanly
	if c.AfterDisc {
		res.Label("send-after-disconnect")
		done := make(chan error, 1)
		go func() { done <- disconnect() }()
		select {
		case <-done:
		case <-time.After(vh.Margin(10 * time.Second)):
			res.Fail("t/disconnect-hangs", "%s: Disconnect did not return", desc)
			return res
		}
		func() {
			defer func() {
				if r := recover(); r != nil {
					res.Fail("panic-send-after-disconnect", "%s: Send after Disconnect panicked: %v", desc, r)
				}
			}()
			m := stanza.NewMessage(stanza.Attrs{To: "a@localhost", Id: "after-disconnect"})
			m.Body = "x"
			err1 := sender.Send(m)
			err2 := sender.SendRaw("<message id='after-disconnect-raw'/>")
			if err1 == nil || err2 == nil {
				res.Fail("send-after-disconnect-succeeds", "%s: after Disconnect Send returned %v and SendRaw %v; nothing can have been written", desc, err1, err2)
			}
		}()
	} else {
		go func() { _ = disconnect() }()
	}
	return res
}

var c08 = vh.Define(&vh.Def[c08Case]{
	Property: "C08", Name: "send",
	Rule: "G in 1-16 goroutines x K in 1-50 sends each of Send(message) / SendRaw(string) / SendIQ(iq) with unique ids and payloads of 10 B - 64 KB (30 KB over WebSocket) carrying a generated 'spice' text (printf verbs, backslash escapes, template / shell syntax, quotes, non-ASCII) x {client over TCP, TLS, WebSocket; component over TCP} x stream management on/off x traffic logger on/off (optionally with a log sink that short-writes every n-th call), optionally followed by Disconnect and two more sends; the scripted peer records every element with its exact bytes; oracle: every send that returned nil arrived exactly once with exactly the bytes of xml.Marshal(packet) / the raw string, nothing else arrived, nothing unparsable arrived, no send failed on a healthy connection, with SM every accepted stanza is held exactly once, sends after Disconnect return an error and do not panic; non-trivial = G >= 2 and K >= 5, or the after-Disconnect step",
	Quick: 120, Thorough: 4000, Journal: true,
	Gen: genC08, Run: runC08,
})

func TestC08_send(t *testing.T) { c08.Check(t) }

// ---------------------------------------------------------------------------
// write-failure injection on a stub transport

type c08FaultCase struct {
	Entity string `json:"entity"`
	FailAt []int  `json:"fail_at"` // 0-based indices of Write calls that fail
	N      int    `json:"n"`
	Spice  string `json:"spice"`
	Short  bool   `json:"short"` // failing writes report a short count instead of an error... with an error
}

type faultTransport struct {
	stubTransport
	mu     sync.Mutex
	writes [][]byte
	calls  int
	fail   map[int]bool
	short  bool
}

func (f *faultTransport) Write(p []byte) (int, error) {
	f.mu.Lock()
	defer f.mu.Unlock()
	i := f.calls
	f.calls++
	if f.fail[i] {
		if f.short {
			return len(p) / 2, fmt.Errorf("injected short write %d", i)
		}
		return 0, fmt.Errorf("injected write failure %d", i)
	}
	f.writes = append(f.writes, append([]byte(nil), p...))
	return len(p), nil
}

func genC08Fault(t *rapid.T) c08FaultCase {
	c := c08FaultCase{Entity: rapid.SampledFrom([]string{"client", "component"}).Draw(t, "entity"), N: rapid.IntRange(1, 12).Draw(t, "n"), Short: rapid.Bool().Draw(t, "short"), Spice: rapid.SampledFrom(c08Spices).Draw(t, "spice")}
	k := rapid.IntRange(1, 4).Draw(t, "nfail")
	for i := 0; i < k; i++ {
		c.FailAt = append(c.FailAt, rapid.IntRange(0, c.N-1).Draw(t, "failAt"))
	}
	return c
}

func runC08Fault(c c08FaultCase) vh.Result {
	var res vh.Result
	res.NonTrivial = true
	ft := &faultTransport{fail: map[int]bool{}, short: c.Short}
	for _, i := range c.FailAt {
		ft.fail[i] = true
	}
	var sender xmpp.Sender
	if c.Entity == "client" {
		cl, _, _, err := newTestClientCfg("127.0.0.1:1", clientOpt{Insecure: true})
		if err != nil {
			res.Fail("harness", "NewClient: %v", err)
			return res
		}
		xmpp.VerifSetTransport(cl, ft)
		sender = cl
	} else {
		comp, _ := xmpp.NewComponent(xmpp.ComponentOptions{TransportConfiguration: xmpp.TransportConfiguration{Address: "127.0.0.1:1", Domain: "c"}, Domain: "c", Secret: "s"}, xmpp.NewRouter(), func(error) {})
		xmpp.VerifSetComponentTransport(comp, ft)
		sender = comp
	}
	for i := 0; i < c.N; i++ {
		kind, pkt, raw, want := c08Payload(c08Case{Spice: c.Spice}, i, i)
		var err error
		switch kind {
		case "send":
			err = sender.Send(pkt)
		case "sendraw":
			err = sender.SendRaw(raw)
		case "sendiq":
			_, err = sender.SendIQ(ctxShort(), pkt.(*stanza.IQ))
		}
		failed := ft.fail[i]
		if failed && err == nil {
			res.Fail("write-failure-not-reported:"+kind, "%s %s #%d: the write failed but the call returned nil (%+v)", c.Entity, kind, i, c)
		}
		if !failed && err != nil {
			res.Fail("spurious-send-error:"+kind, "%s %s #%d: the write succeeded but the call returned %v", c.Entity, kind, i, err)
		}
		if !failed {
			last := string(ft.writes[len(ft.writes)-1])
			if last != want {
				res.Fail("write-bytes-differ:"+kind, "%s %s #%d: wrote %s, expected %s", c.Entity, kind, i, trunc(last, 200), trunc(want, 200))
			}
		}
	}
	if ft.calls != c.N {
		res.Fail("write-call-count", "%s: %d sends made %d Write calls (one per stanza expected)", c.Entity, c.N, ft.calls)
	}
	return res
}

var c08Fault = vh.Define(&vh.Def[c08FaultCase]{
	Property: "C08", Name: "writefault",
	Rule: "1-12 sequential Send/SendRaw/SendIQ calls on a Client or Component whose Transport is a stub (verif export) that fails the Write calls at 1-4 generated indices (plain error or short write with error); oracle: a call returns a non-nil error exactly when its write failed, a successful call made exactly one Write with exactly the serialised bytes; every case is non-trivial",
	Quick: 3000, Thorough: 200000,
	Gen: genC08Fault, Run: runC08Fault,
})

func TestC08_writefault(t *testing.T) { c08Fault.Check(t) }
func TestC08_Regress(t *testing.T)    { vh.Regress(t, "C08") }
