package harness

// Reflection-guided value generator for C01. A *plan* is a JSON-serialisable
// tree (maps, slices, strings, numbers, bools, nil) that describes a value of
// one of the library's types; it is what a case file stores. build() turns a
// plan into the Go value, optionally in "benign" form where every non-empty
// text string is replaced by "x" (used by the injection oracle).

import (
	"encoding/xml"
	"fmt"
	"reflect"
	"sort"
	"strings"
	"time"

	"gosrc.io/xmpp/stanza"
	"pgregory.net/rapid"
)

// ---------------------------------------------------------------------------
// text generators

// xmlLegalRune covers exactly the XML 1.0 Char production.
var xmlLegalRuneGen = rapid.OneOf(
	rapid.RuneFrom([]rune("<>&\"'")),
	rapid.RuneFrom([]rune(" \t\n\r")),
	rapid.RuneFrom([]rune("]>[!-;#x=/?")),
	rapid.RuneFrom([]rune("abcXYZ019")),
	rapid.Map(rapid.IntRange(0x80, 0xD7FF), func(i int) rune { return rune(i) }),
	rapid.Map(rapid.IntRange(0xE000, 0xFFFD), func(i int) rune { return rune(i) }),
	rapid.Map(rapid.IntRange(0x10000, 0x10FFFF), func(i int) rune { return rune(i) }),
)

func xmlLegalRune() *rapid.Generator[rune] { return xmlLegalRuneGen }

func genText(t *rapid.T, label string) string {
	switch rapid.IntRange(0, 11).Draw(t, label+"Class") {
	case 0:
		return ""
	case 1:
		return rapid.SampledFrom([]string{"]]>", "<![CDATA[x]]>", "<!--x-->", "&amp;", "&#x41;", "</message>", "<a/>", "\"/><x a='", "' x='", "<?pi?>", "&lt;", " ", "\n", "\r\n", "\t x \t", "a]]>b", "é", "🙂", "�", "x "}).Draw(t, label+"Const")
	case 2, 3:
		return rapid.StringMatching(`[a-z]{1,8}`).Draw(t, label+"Plain")
	case 4:
		return " " + rapid.StringMatching(`[a-z<&]{0,4}`).Draw(t, label+"Ws") + "\n"
	default:
		return rapid.StringOfN(xmlLegalRune(), 0, 12, -1).Draw(t, label)
	}
}

func genNCName(t *rapid.T, label string) string {
	return rapid.StringMatching(`[a-z][a-z0-9-]{0,7}`).Draw(t, label)
}

var c01NodeNS = []string{"urn:x:a", "urn:x:b", "http://example.org/ns?x=1&y=2", "urn:x:'q'"}

var c01ErrReasons = []string{"gone", "bad-request", "conflict", "feature-not-implemented", "forbidden", "internal-server-error", "item-not-found", "jid-malformed", "not-acceptable", "not-allowed", "not-authorized", "policy-violation", "recipient-unavailable", "redirect", "registration-required", "remote-server-not-found", "remote-server-timeout", "resource-constraint", "service-unavailable", "subscription-required", "undefined-condition", "unexpected-request"}

// ---------------------------------------------------------------------------
// type tables

var c01Types = map[string]reflect.Type{}

func regType(v interface{}) reflect.Type {
	t := reflect.TypeOf(v)
	c01Types[t.Name()] = t
	return t
}

var (
	tMessage  = regType(stanza.Message{})
	tPresence = regType(stanza.Presence{})
	tIQ       = regType(stanza.IQ{})
	tErr      = regType(stanza.Err{})
	tNode     = regType(stanza.Node{})
	tHistory  = regType(stanza.History{})
	tXMLName  = reflect.TypeOf(xml.Name{})
	tXMLAttr  = reflect.TypeOf(xml.Attr{})
	tTime     = reflect.TypeOf(time.Time{})
)

// implementations an interface-typed field may hold (pointers unless noted)
var c01Impls = map[string][]reflect.Type{}

func init() {
	msgExt := []interface{}{stanza.Markable{}, stanza.MarkReceived{}, stanza.MarkDisplayed{}, stanza.MarkAcknowledged{},
		stanza.StateActive{}, stanza.StateComposing{}, stanza.StateGone{}, stanza.StateInactive{}, stanza.StatePaused{},
		stanza.HintNoPermanentStore{}, stanza.HintNoStore{}, stanza.HintNoCopy{}, stanza.HintStore{},
		stanza.HTML{}, stanza.OOB{}, stanza.ReceiptRequest{}, stanza.ReceiptReceived{}, stanza.Delegation{}, stanza.PubSubEvent{}}
	for _, v := range msgExt {
		c01Impls["MsgExtension"] = append(c01Impls["MsgExtension"], regType(v))
	}
	c01Impls["PresExtension"] = []reflect.Type{regType(stanza.MucPresence{})}
	for _, v := range []interface{}{stanza.Command{}, stanza.Delegation{}, stanza.ControlSet{}, stanza.DiscoInfo{}, stanza.DiscoItems{},
		stanza.Roster{}, stanza.RosterItems{}, stanza.Version{}, stanza.PubSubGeneric{}, stanza.PubSubOwner{}, stanza.Bind{}, stanza.StreamSession{}} {
		c01Impls["IQPayload"] = append(c01Impls["IQPayload"], regType(v))
	}
	for _, v := range []interface{}{stanza.Actions{}, stanza.Note{}, stanza.Form{}, stanza.Node{}} {
		c01Impls["CommandElement"] = append(c01Impls["CommandElement"], regType(v))
	}
	// Packet inside <forwarded/>: decodeClient returns Message and Presence by value, IQ by pointer
	c01Impls["Packet"] = []reflect.Type{tMessage, tPresence, tIQ}
	for _, v := range []interface{}{stanza.AffiliationsOwner{}, stanza.ConfigureOwner{}, stanza.DefaultOwner{}, stanza.DeleteOwner{}, stanza.PurgeOwner{}, stanza.SubscriptionsOwner{}} {
		c01Impls["OwnerUseCase"] = append(c01Impls["OwnerUseCase"], regType(v))
	}
	for _, v := range []interface{}{stanza.CollectionEvent{}, stanza.ConfigurationEvent{}, stanza.DeleteEvent{}, stanza.ItemsEvent{}, stanza.PurgeEvent{}, stanza.SubscriptionEvent{}} {
		c01Impls["EventElement"] = append(c01Impls["EventElement"], regType(v))
	}
	for _, v := range []interface{}{stanza.AssociateEvent{}, stanza.DisassociateEvent{}} {
		c01Impls["AssocDisassoc"] = append(c01Impls["AssocDisassoc"], regType(v))
	}
	for _, v := range []interface{}{stanza.BadFormat{}, stanza.BadNamespacePrefix{}, stanza.Conflict{}, stanza.ConnectionTimeout{}, stanza.HostGone{}, stanza.HostUnknown{},
		stanza.ImproperAddressing{}, stanza.InternalServerError{}, stanza.InvalidForm{}, stanza.InvalidId{}, stanza.InvalidNamespace{}, stanza.InvalidXML{},
		stanza.NotAuthorized{}, stanza.NotWellFormed{}, stanza.PolicyViolation{}, stanza.RemoteConnectionFailed{}, stanza.ResourceConstraint{}, stanza.RestrictedXML{},
		stanza.SeeOtherHost{}, stanza.SystemShutdown{}, stanza.UndefinedCondition{}, stanza.UnexpectedRequest{}, stanza.UnsupportedEncoding{}, stanza.UnsupportedStanzaType{},
		stanza.UnsupportedVersion{}, stanza.XMLNotWellFormed{}} {
		c01Impls["StanzaErrorGroup"] = append(c01Impls["StanzaErrorGroup"], regType(v))
	}
	for _, v := range []interface{}{stanza.SMEnable{}, stanza.SMEnabled{}, stanza.SMRequest{}, stanza.SMAnswer{}, stanza.SMResume{}, stanza.SMResumed{}, stanza.SMFailed{},
		stanza.SASLAuth{}, stanza.SASLSuccess{}, stanza.Handshake{}} {
		regType(v)
	}
}

// interface fields that hold values rather than pointers after parsing
func implIsValue(iface string, t reflect.Type) bool {
	return iface == "Packet" && (t == tMessage || t == tPresence)
}

// ---------------------------------------------------------------------------
// generation

type planGen struct {
	t     *rapid.T
	depth int
	kind  string // the stanza whose direct children are being generated: Message Presence IQ
	// a generic node took the name of an extension that is registered for another stanza kind
	borrowed bool
	// stats
	metachar bool
	nexts    int
	packets  int
}

const c01MaxDepth = 16

func fieldKey(st reflect.Type, f reflect.StructField) string { return st.Name() + "." + f.Name }

func xmlTag(f reflect.StructField) (name string, flags map[string]bool) {
	flags = map[string]bool{}
	tag := f.Tag.Get("xml")
	parts := strings.Split(tag, ",")
	name = parts[0]
	for _, p := range parts[1:] {
		flags[p] = true
	}
	return
}

func (g *planGen) text(label string) string {
	s := genText(g.t, label)
	if strings.ContainsAny(s, "<>&\"'") {
		g.metachar = true
	}
	return s
}

// names of extensions registered for one stanza kind only: as a direct child of another kind of stanza an element of
// that name is an unknown extension and stays a generic node
var c01Registered = map[string][][2]string{
	"Message":  {{"jabber:x:oob", "x"}, {"urn:xmpp:receipts", "request"}, {"urn:xmpp:receipts", "received"}, {"urn:xmpp:hints", "no-store"}, {"http://jabber.org/protocol/chatstates", "active"}, {"urn:xmpp:chat-markers:0", "markable"}, {"http://jabber.org/protocol/pubsub#event", "event"}},
	"Presence": {{"http://jabber.org/protocol/muc", "x"}},
	"IQ":       {{"jabber:iq:roster", "query"}, {"jabber:iq:version", "query"}, {"http://jabber.org/protocol/disco#info", "query"}, {"http://jabber.org/protocol/disco#items", "query"}, {"http://jabber.org/protocol/pubsub", "pubsub"}, {"http://jabber.org/protocol/commands", "command"}, {"urn:ietf:params:xml:ns:xmpp-bind", "bind"}},
}

func (g *planGen) node(depth int) interface{} {
	m := map[string]interface{}{
		"Space": rapid.SampledFrom(c01NodeNS).Draw(g.t, "nodeNS"),
		"Local": genNCName(g.t, "nodeName"),
	}
	if depth == 0 && g.kind != "" && rapid.IntRange(0, 4).Draw(g.t, "borrowName") == 0 {
		var pool [][2]string
		for k, l := range c01Registered {
			if k != g.kind {
				pool = append(pool, l...)
			}
		}
		sort.Slice(pool, func(i, j int) bool { return pool[i][0]+pool[i][1] < pool[j][0]+pool[j][1] })
		nm := rapid.SampledFrom(pool).Draw(g.t, "borrowed")
		m["Space"], m["Local"] = nm[0], nm[1]
		g.borrowed = true
	}
	na := rapid.IntRange(0, 2).Draw(g.t, "nattrs")
	var attrs []interface{}
	seen := map[string]bool{}
	for i := 0; i < na; i++ {
		k := rapid.StringMatching(`[a-w][a-z0-9]{0,3}`).Draw(g.t, "attrName") // never starts with x (xml, xmlns)
		if seen[k] {
			continue
		}
		seen[k] = true
		attrs = append(attrs, map[string]interface{}{"K": k, "V": g.text("attrVal")})
	}
	m["Attrs"] = attrs
	m["Content"] = g.text("content")
	var kids []interface{}
	if depth < 4 {
		nk := rapid.IntRange(0, 3-depth/2).Draw(g.t, "nkids")
		for i := 0; i < nk; i++ {
			kids = append(kids, g.node(depth+1))
		}
	}
	m["Nodes"] = kids
	return m
}

func (g *planGen) err() interface{} {
	if rapid.IntRange(0, 2).Draw(g.t, "errZero") == 0 {
		return nil // zero Err
	}
	m := map[string]interface{}{}
	switch rapid.IntRange(0, 3).Draw(g.t, "errCode") {
	case 0:
		m["Code"] = 0
	default:
		m["Code"] = rapid.IntRange(1, 999).Draw(g.t, "code")
	}
	m["Type"] = rapid.SampledFrom([]string{"", "auth", "cancel", "continue", "modify", "wait"}).Draw(g.t, "errType")
	switch rapid.IntRange(0, 3).Draw(g.t, "errReason") {
	case 0:
		m["Reason"] = ""
	case 1:
		m["Reason"] = genNCName(g.t, "reason")
	default:
		m["Reason"] = rapid.SampledFrom(c01ErrReasons).Draw(g.t, "reason")
	}
	m["Text"] = g.text("errText")
	if asInt(m["Code"]) == 0 && m["Type"] == "" && m["Reason"] == "" && m["Text"] == "" {
		m["Type"] = "cancel" // an all-empty Err is "no error"
	}
	return m
}

func (g *planGen) history() interface{} {
	m := map[string]interface{}{}
	for _, k := range []string{"MaxChars", "MaxStanzas", "Seconds"} {
		if rapid.Bool().Draw(g.t, k+"Set") {
			m[k] = rapid.IntRange(-3, 100000).Draw(g.t, k)
		}
	}
	if rapid.Bool().Draw(g.t, "SinceSet") {
		m["Since"] = rapid.Int64Range(1, 4102444800).Draw(g.t, "since") // 1970-01-01T00:00:01Z .. 2100
	}
	return m
}

func (g *planGen) iface(name string) interface{} {
	impls := c01Impls[name]
	if len(impls) == 0 {
		panic("no implementations known for interface " + name)
	}
	if g.depth >= c01MaxDepth {
		return nil
	}
	if name == "Packet" {
		if g.packets >= 1 {
			return nil // at most one level of forwarded stanza inside a stanza
		}
		g.packets++
		defer func() { g.packets-- }()
	}
	t := rapid.SampledFrom(impls).Draw(g.t, name+"Impl")
	g.nexts++
	v := g.value(t, "")
	if v == nil {
		return nil
	}
	return map[string]interface{}{"T": t.Name(), "V": v}
}

// value generates a plan for a value of type typ. key is "Struct.Field" for struct fields.
func (g *planGen) value(typ reflect.Type, key string) interface{} {
	g.depth++
	defer func() { g.depth-- }()
	switch key {
	case "SASLAuth.Value":
		return rapid.StringMatching(`[A-Za-z0-9+/]{0,12}={0,2}`).Draw(g.t, "b64")
	case "Handshake.Value":
		return rapid.StringMatching(`[0-9a-f]{0,40}`).Draw(g.t, "hex")
	case "HTMLBody.InnerXML":
		return rapid.SampledFrom([]string{"", "<p>hello</p>", "<p style=\"color:red\">a<br/>b</p>", "plain text", "<p>&lt;tag&gt; &amp; more</p>", "<ul><li>1</li><li>2</li></ul>"}).Draw(g.t, "xhtml")
	case "ControlField.XMLName":
		return map[string]interface{}{"Space": "urn:xmpp:iot:control", "Local": rapid.SampledFrom([]string{"boolean", "int", "string", "double", "color"}).Draw(g.t, "ctlName")}
	case "IQ.Any":
		return nil // decided in IQ.Payload handling below
	}
	switch typ {
	case tXMLName:
		return nil
	case tErr:
		return g.err()
	case tNode:
		if g.depth >= c01MaxDepth {
			return nil
		}
		return g.node(0)
	case tHistory:
		return g.history()
	}
	switch typ.Kind() {
	case reflect.String:
		return g.text("s")
	case reflect.Bool:
		return rapid.Bool().Draw(g.t, "b")
	case reflect.Int8:
		return rapid.IntRange(-128, 127).Draw(g.t, "i8")
	case reflect.Int, reflect.Int16, reflect.Int32, reflect.Int64:
		return rapid.IntRange(-1000, 100000).Draw(g.t, "i")
	case reflect.Uint, reflect.Uint8, reflect.Uint16, reflect.Uint32, reflect.Uint64:
		return rapid.IntRange(0, 100000).Draw(g.t, "u")
	case reflect.Ptr:
		if typ.Elem() == tNode || typ.Elem() == tErr {
			if rapid.Bool().Draw(g.t, "nilptr") {
				return nil
			}
			v := g.value(typ.Elem(), key)
			if v == nil && typ.Elem() == tErr {
				return nil
			}
			return v
		}
		if rapid.IntRange(0, 2).Draw(g.t, "nilptr") == 0 || g.depth >= c01MaxDepth {
			return nil
		}
		if typ.Elem().Kind() == reflect.Struct && typ.Elem().NumField() == 0 {
			return map[string]interface{}{} // *struct{} flag
		}
		return map[string]interface{}{"P": g.value(typ.Elem(), key)}
	case reflect.Slice:
		if g.depth >= c01MaxDepth {
			return nil
		}
		max := 3
		if key == "Message.Extensions" {
			max = 5
		}
		n := rapid.IntRange(0, max).Draw(g.t, "n")
		var out []interface{}
		for i := 0; i < n; i++ {
			et := typ.Elem()
			var v interface{}
			if et.Kind() == reflect.Ptr && et.Elem() != tNode && et.Elem() != tErr {
				// a nil pointer inside a slice is not a meaningful value: always set
				v = map[string]interface{}{"P": g.value(et.Elem(), key+"[]")}
				out = append(out, v)
				continue
			}
			v = g.value(typ.Elem(), key+"[]")
			if v == nil && typ.Elem().Kind() == reflect.Interface {
				continue
			}
			out = append(out, v)
		}
		return out
	case reflect.Interface:
		return g.iface(typ.Name())
	case reflect.Struct:
		m := map[string]interface{}{}
		if n := typ.Name(); n == "Message" || n == "Presence" || n == "IQ" {
			saved := g.kind
			g.kind = n
			defer func() { g.kind = saved }()
		} else if g.kind != "" {
			saved := g.kind
			g.kind = "" // inside an extension: no longer a direct child of the stanza
			defer func() { g.kind = saved }()
		}
		for i := 0; i < typ.NumField(); i++ {
			f := typ.Field(i)
			if f.PkgPath != "" { // unexported
				continue
			}
			fk := fieldKey(typ, f)
			if f.Type == tXMLName && fk != "ControlField.XMLName" {
				continue
			}
			if f.Anonymous && f.Type.Kind() == reflect.Interface {
				continue // embedded marker interfaces (MsgExtension, PresExtension)
			}
			if name, _ := xmlTag(f); name == "-" {
				continue
			}
			v := g.value(f.Type, fk)
			if v != nil {
				m[f.Name] = v
			}
		}
		if typ == tIQ {
			// at most one of Payload / Any
			// (Payload and Any exclude each other; a generic payload every sixth time)
			if _, has := m["Payload"]; (!has && rapid.Bool().Draw(g.t, "iqAny") || rapid.IntRange(0, 5).Draw(g.t, "iqAnyInstead") == 3) && g.depth < c01MaxDepth {
				delete(m, "Payload")
				m["Any"] = g.node(0)
			}
			if m["Type"] == nil {
				m["Type"] = "get"
			}
		}
		return m
	}
	panic(fmt.Sprintf("planGen: unsupported type %v (%s)", typ, key))
}

// ---------------------------------------------------------------------------
// building values from plans

type builder struct {
	benign bool
}

func (b *builder) str(s string, raw bool) string {
	if b.benign && !raw && s != "" {
		return "x"
	}
	return s
}

func asInt(p interface{}) int64 {
	switch v := p.(type) {
	case float64:
		return int64(v)
	case int:
		return int64(v)
	case int64:
		return v
	}
	return 0
}

func (b *builder) build(plan interface{}, typ reflect.Type, key string) reflect.Value {
	out := reflect.New(typ).Elem()
	if plan == nil {
		return out
	}
	raw := key == "SASLAuth.Value" || key == "Handshake.Value" || key == "HTMLBody.InnerXML" || key == "Err.Reason" || key == "Err.Type"
	switch typ {
	case tXMLName:
		m := plan.(map[string]interface{})
		out.Set(reflect.ValueOf(xml.Name{Space: m["Space"].(string), Local: m["Local"].(string)}))
		return out
	case tErr:
		m := plan.(map[string]interface{})
		e := stanza.Err{Code: int(asInt(m["Code"])), Type: stanza.ErrorType(m["Type"].(string)), Reason: m["Reason"].(string), Text: b.str(m["Text"].(string), false)}
		out.Set(reflect.ValueOf(e))
		return out
	case tNode:
		out.Set(reflect.ValueOf(b.node(plan.(map[string]interface{}))))
		return out
	case tHistory:
		m := plan.(map[string]interface{})
		h := stanza.History{}
		if v, ok := m["MaxChars"]; ok {
			h.MaxChars = stanza.NewNullableInt(int(asInt(v)))
		}
		if v, ok := m["MaxStanzas"]; ok {
			h.MaxStanzas = stanza.NewNullableInt(int(asInt(v)))
		}
		if v, ok := m["Seconds"]; ok {
			h.Seconds = stanza.NewNullableInt(int(asInt(v)))
		}
		if v, ok := m["Since"]; ok {
			h.Since = time.Unix(asInt(v), 0).UTC()
		}
		out.Set(reflect.ValueOf(h))
		return out
	}
	switch typ.Kind() {
	case reflect.String:
		out.SetString(b.str(plan.(string), raw))
	case reflect.Bool:
		out.SetBool(plan.(bool))
	case reflect.Int, reflect.Int8, reflect.Int16, reflect.Int32, reflect.Int64:
		out.SetInt(asInt(plan))
	case reflect.Uint, reflect.Uint8, reflect.Uint16, reflect.Uint32, reflect.Uint64:
		out.SetUint(uint64(asInt(plan)))
	case reflect.Ptr:
		p := reflect.New(typ.Elem())
		if typ.Elem() == tNode || typ.Elem() == tErr {
			p.Elem().Set(b.build(plan, typ.Elem(), key))
		} else if m, ok := plan.(map[string]interface{}); ok {
			if inner, has := m["P"]; has {
				p.Elem().Set(b.build(inner, typ.Elem(), key))
			}
		}
		out.Set(p)
	case reflect.Slice:
		arr, _ := plan.([]interface{})
		s := reflect.MakeSlice(typ, 0, len(arr))
		for _, e := range arr {
			s = reflect.Append(s, b.build(e, typ.Elem(), key+"[]"))
		}
		if len(arr) > 0 {
			out.Set(s)
		}
	case reflect.Interface:
		m := plan.(map[string]interface{})
		it := c01Types[m["T"].(string)]
		v := b.build(m["V"], it, "")
		if implIsValue(typ.Name(), it) {
			out.Set(v)
		} else {
			p := reflect.New(it)
			p.Elem().Set(v)
			out.Set(p)
		}
	case reflect.Struct:
		m, _ := plan.(map[string]interface{})
		for i := 0; i < typ.NumField(); i++ {
			f := typ.Field(i)
			if f.PkgPath != "" {
				continue
			}
			fp, ok := m[f.Name]
			if !ok {
				continue
			}
			out.Field(i).Set(b.build(fp, f.Type, fieldKey(typ, f)))
		}
	default:
		panic(fmt.Sprintf("build: unsupported type %v", typ))
	}
	return out
}

func (b *builder) node(m map[string]interface{}) stanza.Node {
	n := stanza.Node{XMLName: xml.Name{Space: m["Space"].(string), Local: m["Local"].(string)}}
	if arr, ok := m["Attrs"].([]interface{}); ok {
		for _, a := range arr {
			am := a.(map[string]interface{})
			n.Attrs = append(n.Attrs, xml.Attr{Name: xml.Name{Local: am["K"].(string)}, Value: b.str(am["V"].(string), false)})
		}
	}
	n.Content = b.str(m["Content"].(string), false)
	if arr, ok := m["Nodes"].([]interface{}); ok {
		for _, k := range arr {
			n.Nodes = append(n.Nodes, b.node(k.(map[string]interface{})))
		}
	}
	return n
}

// ---------------------------------------------------------------------------
// flattening values for comparison

// flatten writes one entry per non-zero leaf of v: path -> printable value.
// XMLName fields are ignored except where the name is data (Node, ControlField).
func flatten(v reflect.Value, path string, out map[string]string) {
	if !v.IsValid() {
		return
	}
	typ := v.Type()
	switch typ {
	case tXMLName:
		return
	case tTime:
		tm := v.Interface().(time.Time)
		if !tm.IsZero() {
			out[path] = tm.UTC().Format(time.RFC3339Nano)
		}
		return
	case tHistory:
		h := v.Interface().(stanza.History)
		for _, x := range []struct {
			n string
			v stanza.NullableInt
		}{{"MaxChars", h.MaxChars}, {"MaxStanzas", h.MaxStanzas}, {"Seconds", h.Seconds}} {
			if val, ok := x.v.Get(); ok {
				out[path+"."+x.n] = fmt.Sprint(val)
			}
		}
		if !h.Since.IsZero() {
			out[path+".Since"] = h.Since.UTC().Format(time.RFC3339Nano)
		}
		return
	case tNode:
		n := v.Interface().(stanza.Node)
		out[path+".name"] = n.XMLName.Space + " " + n.XMLName.Local
		as := append([]xml.Attr(nil), n.Attrs...)
		sort.Slice(as, func(i, j int) bool { return as[i].Name.Local < as[j].Name.Local })
		for _, a := range as {
			out[path+".@"+a.Name.Local] = "=" + a.Value
		}
		if n.Content != "" {
			out[path+".Content"] = n.Content
		}
		for i, k := range n.Nodes {
			flatten(reflect.ValueOf(k), fmt.Sprintf("%s.Nodes[%d]", path, i), out)
		}
		return
	}
	switch typ.Kind() {
	case reflect.String:
		if s := v.String(); s != "" {
			out[path] = s
		}
	case reflect.Bool:
		if v.Bool() {
			out[path] = "true"
		}
	case reflect.Int, reflect.Int8, reflect.Int16, reflect.Int32, reflect.Int64:
		if v.Int() != 0 {
			out[path] = fmt.Sprint(v.Int())
		}
	case reflect.Uint, reflect.Uint8, reflect.Uint16, reflect.Uint32, reflect.Uint64:
		if v.Uint() != 0 {
			out[path] = fmt.Sprint(v.Uint())
		}
	case reflect.Ptr:
		if v.IsNil() {
			return
		}
		out[path+".&"] = "set"
		flatten(v.Elem(), path, out)
	case reflect.Interface:
		if v.IsNil() {
			return
		}
		e := v.Elem()
		if e.Kind() == reflect.Ptr {
			if e.IsNil() {
				return
			}
			e = e.Elem()
		}
		tn := e.Type().Name()
		if tn == "Roster" {
			tn = "RosterItems" // both are registered for the same element; the later registration wins
		}
		path += "(" + tn + ")"
		out[path+".&"] = "set"
		flatten(e, path, out)
	case reflect.Slice:
		for i := 0; i < v.Len(); i++ {
			flatten(v.Index(i), fmt.Sprintf("%s[%d]", path, i), out)
		}
	case reflect.Struct:
		for i := 0; i < typ.NumField(); i++ {
			f := typ.Field(i)
			if f.Type == tXMLName {
				if typ.Name() == "ControlField" {
					n := v.Field(i).Interface().(xml.Name)
					out[path+".name"] = n.Local
				}
				continue
			}
			if f.Anonymous && f.Type.Kind() == reflect.Interface {
				continue
			}
			if f.PkgPath != "" {
				continue
			}
			p := path + "." + f.Name
			if f.Anonymous {
				p = path // embedded structs (Attrs, SubInfo, Form) are flattened into the parent
			}
			flatten(v.Field(i), p, out)
		}
	}
}

// classPath strips slice indices so that a path can serve as a class key.
func classPath(p string) string {
	var sb strings.Builder
	skip := false
	for _, r := range p {
		switch {
		case r == '[':
			skip = true
			sb.WriteString("[]")
		case r == ']':
			skip = false
		case !skip:
			sb.WriteRune(r)
		}
	}
	return sb.String()
}
