// Package peer is a scripted XMPP peer (server side) for the verification
// harness. It listens on 127.0.0.1:0, lets a per-connection handler drive the
// conversation with small primitives (read one top-level element, send bytes
// in chunks, switch to TLS, close / half-close / reset) and records a
// transcript of everything received and sent. It never asserts anything; the
// oracles run on the transcript afterwards.
package peer

import (
	"bytes"
	"crypto/tls"
	"encoding/xml"
	"errors"
	"fmt"
	"io"
	"net"
	"strings"
	"sync"
	"time"
)

// Event is one transcript entry.
type Event struct {
	Dir   string            // "recv" or "sent" or "note"
	Kind  string            // recv: "open" (stream header), "elem", "close" (</stream:stream>), "ws" (white space), "eof", "error"; sent: "bytes"; note: free text
	Name  xml.Name          // recv elem/open
	Attr  map[string]string // recv elem/open (local names)
	Raw   string
	Inner string // recv elem: character data directly inside the element
	InTLS bool
	At    time.Duration // since the connection was accepted
	Err   string
}

// Conn is one accepted connection.
type Conn struct {
	glueNext string // appended to the next Send (Script.Glue)
	Index    int    // 0 for the first connection accepted by the server
	srv      *Server
	raw      net.Conn
	cur      net.Conn // raw or the TLS connection
	hc       *holdConn
	inTLS    bool
	start    time.Time

	mu         sync.Mutex
	transcript []Event

	rd  *byteSource
	dec *xml.Decoder
	// depth inside the current stream document: 0 before the header
	depth int
	wmu   sync.Mutex
}

type byteSource struct {
	c      *Conn
	buf    []byte // bytes read from the socket and not yet handed to the decoder
	taken  []byte // bytes handed to the current decoder (for raw capture)
	rerr   error
	tmp    [4096]byte
	dl     time.Time
	closed bool
}

func (b *byteSource) fill() error {
	if b.rerr != nil {
		return b.rerr
	}
	_ = b.c.cur.SetReadDeadline(b.dl)
	n, err := b.c.cur.Read(b.tmp[:])
	if n > 0 {
		b.buf = append(b.buf, b.tmp[:n]...)
	}
	if err != nil {
		var ne net.Error
		if errors.As(err, &ne) && ne.Timeout() {
			return err // a time-out is not sticky
		}
		if n == 0 {
			b.rerr = err
			return err
		}
	}
	return nil
}

func (b *byteSource) ReadByte() (byte, error) {
	for len(b.buf) == 0 {
		if err := b.fill(); err != nil {
			return 0, err
		}
	}
	c := b.buf[0]
	b.buf = b.buf[1:]
	b.taken = append(b.taken, c)
	return c, nil
}

func (b *byteSource) Read(p []byte) (int, error) {
	if len(p) == 0 {
		return 0, nil
	}
	c, err := b.ReadByte()
	if err != nil {
		return 0, err
	}
	p[0] = c
	return 1, nil
}

// Server is the listening peer.
type Server struct {
	ln      net.Listener
	Addr    string
	Handler func(c *Conn)

	mu     sync.Mutex
	conns  []*Conn
	wg     sync.WaitGroup
	closed bool
}

// Listen starts a server; handler runs in its own goroutine per connection.
func Listen(handler func(c *Conn)) (*Server, error) {
	var ln net.Listener
	var err error
	// when the machine is short of ephemeral ports (thousands of connections per second leave sockets in
	// TIME_WAIT) wait for some to come back instead of failing the case
	for i := 0; i < 300; i++ {
		ln, err = net.Listen("tcp", "127.0.0.1:0")
		if err == nil {
			break
		}
		time.Sleep(200 * time.Millisecond)
	}
	if err != nil {
		return nil, err
	}
	return serve(ln, handler), nil
}

// ListenAt starts a server on a given address (used to come back on the same port).
func ListenAt(addr string, handler func(c *Conn)) (*Server, error) {
	var ln net.Listener
	var err error
	for i := 0; i < 50; i++ {
		ln, err = net.Listen("tcp", addr)
		if err == nil {
			break
		}
		time.Sleep(20 * time.Millisecond)
	}
	if err != nil {
		return nil, err
	}
	return serve(ln, handler), nil
}

func serve(ln net.Listener, handler func(c *Conn)) *Server {
	s := &Server{ln: ln, Addr: ln.Addr().String(), Handler: handler}
	s.wg.Add(1)
	go func() {
		defer s.wg.Done()
		for {
			nc, err := ln.Accept()
			if err != nil {
				return
			}
			s.mu.Lock()
			c := &Conn{Index: len(s.conns), srv: s, raw: nc, cur: nc, start: time.Now()}
			c.rd = &byteSource{c: c}
			s.conns = append(s.conns, c)
			s.mu.Unlock()
			s.wg.Add(1)
			go func() {
				defer s.wg.Done()
				defer func() {
					if r := recover(); r != nil {
						c.Note(fmt.Sprintf("handler panic: %v", r))
					}
				}()
				s.Handler(c)
			}()
		}
	}()
	return s
}

// StopListening closes the listener only (existing connections stay).
func (s *Server) StopListening() { _ = s.ln.Close() }

// Close closes the listener and every connection and waits for the handlers.
func (s *Server) Close() {
	s.mu.Lock()
	s.closed = true
	conns := append([]*Conn(nil), s.conns...)
	s.mu.Unlock()
	_ = s.ln.Close()
	for _, c := range conns {
		// the case is over: abort what is left, so that no socket lingers in TIME_WAIT on this side
		if tc, ok := c.raw.(*net.TCPConn); ok {
			_ = tc.SetLinger(0)
		}
		_ = c.raw.Close()
	}
	done := make(chan struct{})
	go func() { s.wg.Wait(); close(done) }()
	select {
	case <-done:
	case <-time.After(5 * time.Second):
	}
}

// Conns returns the connections accepted so far.
func (s *Server) Conns() []*Conn {
	s.mu.Lock()
	defer s.mu.Unlock()
	return append([]*Conn(nil), s.conns...)
}

// ---------------------------------------------------------------------------

func (c *Conn) add(e Event) {
	e.At = time.Since(c.start)
	e.InTLS = c.inTLS
	c.mu.Lock()
	c.transcript = append(c.transcript, e)
	c.mu.Unlock()
}

// Note adds a free-text entry to the transcript.
func (c *Conn) Note(s string) { c.add(Event{Dir: "note", Kind: s}) }

// Transcript returns a copy of the transcript.
func (c *Conn) Transcript() []Event {
	c.mu.Lock()
	defer c.mu.Unlock()
	return append([]Event(nil), c.transcript...)
}

// Received returns the received element events (Kind elem/open/close).
func (c *Conn) Received() []Event {
	var out []Event
	for _, e := range c.Transcript() {
		if e.Dir == "recv" && (e.Kind == "elem" || e.Kind == "open" || e.Kind == "close") {
			out = append(out, e)
		}
	}
	return out
}

// Send writes bytes to the client (inside TLS once switched).
func (c *Conn) Send(s string) error {
	c.wmu.Lock()
	defer c.wmu.Unlock()
	if c.glueNext != "" {
		s += c.glueNext // leaves in the same write as the reply it follows
		c.glueNext = ""
	}
	_ = c.cur.SetWriteDeadline(time.Now().Add(10 * time.Second))
	_, err := io.WriteString(c.cur, s)
	ev := Event{Dir: "sent", Kind: "bytes", Raw: s}
	if err != nil {
		ev.Err = err.Error()
	}
	c.add(ev)
	return err
}

// SendChunks writes s in pieces of the given sizes (cycled); each piece is a separate write.
func (c *Conn) SendChunks(s string, sizes []int) error {
	if len(sizes) == 0 {
		return c.Send(s)
	}
	c.wmu.Lock()
	defer c.wmu.Unlock()
	b := []byte(s)
	i := 0
	var err error
	for len(b) > 0 && err == nil {
		n := sizes[i%len(sizes)]
		i++
		if n <= 0 {
			n = 1
		}
		if n > len(b) {
			n = len(b)
		}
		_ = c.cur.SetWriteDeadline(time.Now().Add(10 * time.Second))
		_, err = c.cur.Write(b[:n])
		b = b[n:]
	}
	ev := Event{Dir: "sent", Kind: "bytes", Raw: s}
	if err != nil {
		ev.Err = err.Error()
	}
	c.add(ev)
	return err
}

// newDocument makes the next read start a fresh XML document (stream restart).
func (c *Conn) newDocument() {
	c.rd.taken = c.rd.taken[:0]
	c.dec = xml.NewDecoder(c.rd)
	c.dec.Strict = true
	c.depth = 0
}

// ErrTimeout is returned by the read primitives when nothing complete arrived in time.
var ErrTimeout = errors.New("peer: read time-out")

// Next reads the next event from the client: the stream header ("open"), one
// complete top-level element ("elem"), the stream end tag ("close"), white
// space between elements ("ws"), end of input ("eof") or an error.
func (c *Conn) Next(timeout time.Duration) Event {
	if c.dec == nil {
		c.newDocument()
	}
	deadline := time.Now().Add(timeout)
	for {
		// White space between elements is handled at byte level, and the XML
		// decoder is only entered once the first byte of a token is there, so
		// that a time-out never leaves the decoder in its sticky error state.
		for len(c.rd.buf) == 0 {
			c.rd.dl = deadline
			if err := c.rd.fill(); err != nil {
				ev := Event{Dir: "recv", Kind: "eof", Err: err.Error()}
				var ne net.Error
				if errors.As(err, &ne) && ne.Timeout() {
					ev.Kind = "timeout"
				} else if err != io.EOF && !strings.Contains(err.Error(), "EOF") && !strings.Contains(err.Error(), "reset") && !strings.Contains(err.Error(), "closed") {
					ev.Kind = "error"
				}
				c.add(ev)
				return ev
			}
		}
		n := 0
		for n < len(c.rd.buf) && (c.rd.buf[n] == ' ' || c.rd.buf[n] == '\n' || c.rd.buf[n] == '\t' || c.rd.buf[n] == '\r') {
			n++
		}
		if n > 0 {
			ws := string(c.rd.buf[:n])
			c.rd.buf = c.rd.buf[n:]
			if c.depth == 1 {
				ev := Event{Dir: "recv", Kind: "ws", Raw: ws}
				c.add(ev)
				return ev
			}
			continue
		}
		c.rd.dl = time.Now().Add(15 * time.Second)
		if time.Until(deadline) > 15*time.Second {
			c.rd.dl = deadline
		}
		startOff := c.dec.InputOffset()
		tok, err := c.dec.Token()
		if err != nil {
			ev := Event{Dir: "recv"}
			var ne net.Error
			switch {
			case err == io.EOF:
				ev.Kind = "eof"
			case errors.As(err, &ne) && ne.Timeout():
				ev.Kind = "timeout"
			default:
				ev.Kind = "error"
				if errors.Is(err, io.EOF) || strings.Contains(err.Error(), "unexpected EOF") {
					ev.Kind = "eof"
				}
			}
			ev.Err = err.Error()
			c.add(ev)
			return ev
		}
		switch t := tok.(type) {
		case xml.ProcInst, xml.Comment, xml.Directive:
			continue
		case xml.CharData:
			continue
		case xml.StartElement:
			attr := map[string]string{}
			for _, a := range t.Attr {
				attr[a.Name.Local] = a.Value
			}
			if c.depth == 0 {
				c.depth = 1
				ev := Event{Dir: "recv", Kind: "open", Name: t.Name, Attr: attr, Raw: c.rawFrom(startOff)}
				c.add(ev)
				return ev
			}
			if c.depth == 1 && t.Name.Local == "stream" && t.Name.Space == "http://etherx.jabber.org/streams" {
				// a stream restart the server did not ask for (the client believes a step succeeded): reported as an
				// open, so that the script can answer it the way a lenient server would instead of waiting for its end
				ev := Event{Dir: "recv", Kind: "open", Name: t.Name, Attr: attr, Raw: c.rawFrom(startOff), Err: "unexpected restart"}
				c.add(ev)
				return ev
			}
			// a complete element: collect to its end
			var inner bytes.Buffer
			d := 1
			for d > 0 {
				tk, err := c.dec.Token()
				if err != nil {
					ev := Event{Dir: "recv", Kind: "error", Name: t.Name, Attr: attr, Err: "incomplete element: " + err.Error(), Raw: c.rawFrom(startOff)}
					var ne net.Error
					if errors.As(err, &ne) && ne.Timeout() {
						ev.Kind = "timeout"
					}
					c.add(ev)
					return ev
				}
				switch x := tk.(type) {
				case xml.StartElement:
					d++
				case xml.EndElement:
					d--
				case xml.CharData:
					if d == 1 {
						inner.Write(x)
					}
				}
			}
			ev := Event{Dir: "recv", Kind: "elem", Name: t.Name, Attr: attr, Inner: inner.String(), Raw: c.rawFrom(startOff)}
			c.add(ev)
			return ev
		case xml.EndElement:
			ev := Event{Dir: "recv", Kind: "close", Name: t.Name, Raw: c.rawFrom(startOff)}
			c.depth = 0
			c.add(ev)
			return ev
		}
	}
}

func (c *Conn) rawFrom(off int64) string {
	// offsets are relative to the current document (decoder); taken holds its bytes
	end := c.dec.InputOffset()
	if off < 0 || end > int64(len(c.rd.taken)) || off > end {
		return ""
	}
	return string(c.rd.taken[off:end])
}

// NextElem skips white space and returns the next non-ws event.
func (c *Conn) NextElem(timeout time.Duration) Event {
	deadline := time.Now().Add(timeout)
	for {
		ev := c.Next(time.Until(deadline))
		if ev.Kind != "ws" {
			return ev
		}
	}
}

// ExpectOpen reads a new stream header (a new XML document).
func (c *Conn) ExpectOpen(timeout time.Duration) Event {
	c.newDocument()
	return c.NextElem(timeout)
}

// Pending reports whether the client has sent any non-white-space byte that
// was not consumed yet, waiting at most d for one to arrive. It never
// consumes data. Used for the one-directional "request sent too early" test.
func (c *Conn) Pending(d time.Duration) bool {
	has := func() bool {
		for _, b := range c.rd.buf {
			if b != ' ' && b != '\n' && b != '\t' && b != '\r' {
				return true
			}
		}
		return false
	}
	if has() {
		return true
	}
	c.rd.dl = time.Now().Add(d)
	for time.Now().Before(c.rd.dl) {
		if err := c.rd.fill(); err != nil {
			break
		}
		if has() {
			return true
		}
	}
	return has()
}

// holdConn lets the peer put several writes (e.g. the last TLS data record and the close_notify alert) into one
// TCP segment: while hold is set, writes are buffered; Flush sends them with a single Write.
type holdConn struct {
	net.Conn
	mu   sync.Mutex
	hold bool
	buf  []byte
}

func (h *holdConn) Write(p []byte) (int, error) {
	h.mu.Lock()
	if h.hold {
		h.buf = append(h.buf, p...)
		h.mu.Unlock()
		return len(p), nil
	}
	h.mu.Unlock()
	return h.Conn.Write(p)
}

func (h *holdConn) setHold(on bool) error {
	h.mu.Lock()
	h.hold = on
	var b []byte
	if !on {
		b, h.buf = h.buf, nil
	}
	h.mu.Unlock()
	if len(b) > 0 {
		// tls.Conn.CloseWrite leaves a write deadline in the past on the underlying connection
		_ = h.Conn.SetWriteDeadline(time.Now().Add(10 * time.Second))
		_, err := h.Conn.Write(b)
		return err
	}
	return nil
}

// SendAndCloseTogether writes s and ends the sending direction such that, inside TLS, the last data record and
// the close_notify alert leave in a single TCP segment (a reader then gets data and end-of-stream from one Read).
func (c *Conn) SendAndCloseTogether(s string) {
	c.Note("send-and-close-together")
	if tc, ok := c.cur.(*tls.Conn); ok && c.hc != nil {
		_ = c.hc.setHold(true)
		_, _ = tc.Write([]byte(s))
		_ = tc.CloseWrite()
		_ = c.hc.setHold(false)
		c.add(Event{Dir: "sent", Kind: "bytes", Raw: s})
		if t, ok := c.raw.(*net.TCPConn); ok {
			_ = t.CloseWrite()
		}
		return
	}
	c.Send(s)
	c.HalfClose()
}

// StartTLS performs the server side of a TLS handshake on the connection.
func (c *Conn) StartTLS(cfg *tls.Config) error {
	if len(c.rd.buf) > 0 {
		c.Note(fmt.Sprintf("clear-text bytes pending before TLS: %q", string(c.rd.buf)))
	}
	c.hc = &holdConn{Conn: c.raw}
	tc := tls.Server(c.hc, cfg)
	_ = tc.SetDeadline(time.Now().Add(10 * time.Second))
	err := tc.Handshake()
	_ = tc.SetDeadline(time.Time{})
	if err != nil {
		c.add(Event{Dir: "note", Kind: "tls-handshake-failed", Err: err.Error()})
		return err
	}
	c.cur = tc
	c.inTLS = true
	c.rd.buf = nil
	c.rd.rerr = nil
	c.Note("tls-established")
	c.dec = nil
	return nil
}

// InTLS reports whether the connection was switched to TLS.
func (c *Conn) InTLS() bool { return c.inTLS }

// Close closes the connection (FIN after pending data).
func (c *Conn) Close() {
	c.Note("close")
	_ = c.cur.Close()
}

// GracefulClose sends FIN, keeps reading until the client closes too (or the
// time-out), then closes. A plain Close with unread client data in the
// receive buffer makes the kernel send RST, which can destroy data the client
// has not read yet; the harness must not inject that fault by accident.
func (c *Conn) GracefulClose(timeout time.Duration) {
	c.HalfClose()
	c.Drain(timeout)
	_ = c.cur.Close()
}

// CloseSoon ends the connection the graceful way when another go routine (the connection's handler) is reading from
// it: the sending side is shut down at once, the socket is closed after the delay. It does not read itself - two
// readers on one Conn would fight over the read deadline, and the loser blocks for as long as the winner asked for.
func (c *Conn) CloseSoon(delay time.Duration) {
	c.HalfClose()
	go func() {
		time.Sleep(delay)
		_ = c.cur.Close()
	}()
}

// HalfClose shuts down the sending side only and keeps reading.
func (c *Conn) HalfClose() {
	c.Note("half-close")
	if c.inTLS {
		if tc, ok := c.cur.(*tls.Conn); ok {
			_ = tc.CloseWrite()
		}
	}
	if tc, ok := c.raw.(*net.TCPConn); ok {
		_ = tc.CloseWrite()
	}
}

// Reset aborts the connection (RST).
func (c *Conn) Reset() {
	c.Note("reset")
	if tc, ok := c.raw.(*net.TCPConn); ok {
		_ = tc.SetLinger(0)
	}
	_ = c.raw.Close()
}

// Discard reads and throws away whatever the client still writes, until it closes or the time-out. Used after
// the byte stream became unparsable, so that the client's writers do not block on a full socket buffer.
func (c *Conn) Discard(timeout time.Duration) {
	c.Note("discarding")
	c.rd.buf = nil
	buf := make([]byte, 32768)
	_ = c.cur.SetReadDeadline(time.Now().Add(timeout))
	for {
		if _, err := c.cur.Read(buf); err != nil {
			return
		}
	}
}

// ReadRaw consumes up to n bytes of what the client writes, unparsed, and returns how many it got before the
// time-out or the end of the connection.
func (c *Conn) ReadRaw(n int, timeout time.Duration) int {
	got := len(c.rd.buf)
	c.rd.buf = nil
	buf := make([]byte, 32768)
	_ = c.cur.SetReadDeadline(time.Now().Add(timeout))
	for got < n {
		k, err := c.cur.Read(buf[:min(len(buf), n-got)])
		got += k
		if err != nil {
			break
		}
	}
	c.Note(fmt.Sprintf("read %d raw bytes", got))
	return got
}

// Drain reads and records events until EOF, error or the time-out.
func (c *Conn) Drain(timeout time.Duration) {
	deadline := time.Now().Add(timeout)
	for time.Now().Before(deadline) {
		ev := c.Next(time.Until(deadline))
		if ev.Kind == "eof" || ev.Kind == "error" || ev.Kind == "timeout" {
			return
		}
	}
}
