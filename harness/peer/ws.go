package peer

// WebSocket variant of the scripted peer (RFC 7395 framing): one XML element
// per WebSocket message.

import (
	"context"
	"encoding/xml"
	"fmt"
	"net"
	"net/http"
	"strings"
	"sync"
	"time"

	"nhooyr.io/websocket"
)

const NSFraming = "urn:ietf:params:xml:ns:xmpp-framing"

// WSConn is one accepted WebSocket connection.
type WSConn struct {
	Index int
	ws    *websocket.Conn
	start time.Time
	mu    sync.Mutex
	tr    []Event
	done  chan struct{}
	tcp   net.Conn
}

// recordingListener remembers the accepted TCP connections so that the peer can
// end a WebSocket connection at TCP level (FIN), which the websocket package cannot do.
type recordingListener struct {
	net.Listener
	mu    sync.Mutex
	conns map[string]net.Conn
}

func (l *recordingListener) Accept() (net.Conn, error) {
	c, err := l.Listener.Accept()
	if err == nil {
		l.mu.Lock()
		l.conns[c.RemoteAddr().String()] = c
		l.mu.Unlock()
	}
	return c, err
}

func (l *recordingListener) get(remote string) net.Conn {
	l.mu.Lock()
	defer l.mu.Unlock()
	return l.conns[remote]
}

// DropTCP ends the connection at TCP level without a WebSocket close frame:
// FIN first (everything written before is still delivered), full close after
// the client closed or the time-out.
func (c *WSConn) DropTCP(timeout time.Duration) {
	c.add(Event{Dir: "note", Kind: "tcp-fin"})
	if tc, ok := c.tcp.(*net.TCPConn); ok {
		_ = tc.CloseWrite()
		deadline := time.Now().Add(timeout)
		for time.Now().Before(deadline) {
			if ev := c.Recv(time.Until(deadline)); ev.Kind == "eof" || ev.Kind == "timeout" {
				break
			}
		}
	}
	_ = c.ws.Close(websocket.StatusGoingAway, "bye")
}

// WSServer is the listening WebSocket peer.
type WSServer struct {
	ln      net.Listener
	srv     *http.Server
	URL     string
	mu      sync.Mutex
	conns   []*WSConn
	wg      sync.WaitGroup
	Handler func(c *WSConn)
}

// ListenWS starts a WebSocket peer on 127.0.0.1:0. subprotocol is normally "xmpp".
func ListenWS(subprotocol string, handler func(c *WSConn)) (*WSServer, error) {
	ln, err := net.Listen("tcp", "127.0.0.1:0")
	if err != nil {
		return nil, err
	}
	rl := &recordingListener{Listener: ln, conns: map[string]net.Conn{}}
	s := &WSServer{ln: ln, Handler: handler, URL: "ws://" + ln.Addr().String() + "/xmpp-websocket"}
	mux := http.NewServeMux()
	mux.HandleFunc("/", func(w http.ResponseWriter, r *http.Request) {
		var subs []string
		if subprotocol != "" {
			subs = []string{subprotocol}
		}
		wc, err := websocket.Accept(w, r, &websocket.AcceptOptions{Subprotocols: subs})
		if err != nil {
			return
		}
		wc.SetReadLimit(1 << 20)
		s.mu.Lock()
		c := &WSConn{Index: len(s.conns), ws: wc, start: time.Now(), done: make(chan struct{}), tcp: rl.get(r.RemoteAddr)}
		s.conns = append(s.conns, c)
		s.mu.Unlock()
		s.wg.Add(1)
		defer s.wg.Done()
		defer close(c.done)
		defer func() {
			if rec := recover(); rec != nil {
				c.add(Event{Dir: "note", Kind: fmt.Sprintf("handler panic: %v", rec)})
			}
		}()
		s.Handler(c)
	})
	s.srv = &http.Server{Handler: mux}
	go func() { _ = s.srv.Serve(rl) }()
	return s, nil
}

// Close shuts the server and all connections down.
func (s *WSServer) Close() {
	s.mu.Lock()
	conns := append([]*WSConn(nil), s.conns...)
	s.mu.Unlock()
	for _, c := range conns {
		_ = c.ws.Close(websocket.StatusGoingAway, "bye")
	}
	_ = s.srv.Close()
	done := make(chan struct{})
	go func() { s.wg.Wait(); close(done) }()
	select {
	case <-done:
	case <-time.After(5 * time.Second):
	}
}

func (c *WSConn) add(e Event) {
	e.At = time.Since(c.start)
	c.mu.Lock()
	c.tr = append(c.tr, e)
	c.mu.Unlock()
}

// Transcript returns a copy of the transcript.
func (c *WSConn) Transcript() []Event {
	c.mu.Lock()
	defer c.mu.Unlock()
	return append([]Event(nil), c.tr...)
}

// Send writes one WebSocket text message in a single frame.
func (c *WSConn) Send(s string) error {
	ctx, cancel := context.WithTimeout(context.Background(), 10*time.Second)
	defer cancel()
	err := c.ws.Write(ctx, websocket.MessageText, []byte(s))
	ev := Event{Dir: "sent", Kind: "bytes", Raw: s}
	if err != nil {
		ev.Err = err.Error()
	}
	c.add(ev)
	return err
}

// SendFragments writes one message split into continuation frames of the given sizes (cycled).
func (c *WSConn) SendFragments(s string, sizes []int) error {
	if len(sizes) == 0 {
		return c.Send(s)
	}
	ctx, cancel := context.WithTimeout(context.Background(), 10*time.Second)
	defer cancel()
	w, err := c.ws.Writer(ctx, websocket.MessageText)
	if err != nil {
		return err
	}
	b := []byte(s)
	i := 0
	for len(b) > 0 && err == nil {
		n := sizes[i%len(sizes)]
		i++
		if n <= 0 {
			n = 1
		}
		if n > len(b) {
			n = len(b)
		}
		_, err = w.Write(b[:n])
		b = b[n:]
	}
	if cerr := w.Close(); err == nil {
		err = cerr
	}
	ev := Event{Dir: "sent", Kind: "frames", Raw: s}
	if err != nil {
		ev.Err = err.Error()
	}
	c.add(ev)
	return err
}

// Recv reads one message and parses its root element.
func (c *WSConn) Recv(timeout time.Duration) Event {
	ctx, cancel := context.WithTimeout(context.Background(), timeout)
	defer cancel()
	_, data, err := c.ws.Read(ctx)
	if err != nil {
		ev := Event{Dir: "recv", Kind: "eof", Err: err.Error()}
		if ctx.Err() != nil {
			ev.Kind = "timeout"
		}
		c.add(ev)
		return ev
	}
	ev := Event{Dir: "recv", Kind: "elem", Raw: string(data), Attr: map[string]string{}}
	d := xml.NewDecoder(strings.NewReader(string(data)))
	depth := 0
	var inner strings.Builder
	for {
		tok, err := d.Token()
		if err != nil {
			break
		}
		switch t := tok.(type) {
		case xml.StartElement:
			if depth == 0 {
				ev.Name = t.Name
				for _, a := range t.Attr {
					ev.Attr[a.Name.Local] = a.Value
				}
			}
			depth++
		case xml.EndElement:
			depth--
		case xml.CharData:
			if depth == 1 {
				inner.Write(t)
			}
		}
	}
	ev.Inner = inner.String()
	if ev.Name.Local == "" {
		ev.Kind = "ws"
		if strings.TrimSpace(string(data)) != "" {
			ev.Kind = "error"
		}
	}
	if ev.Name.Space == NSFraming && ev.Name.Local == "open" {
		ev.Kind = "open"
	}
	if ev.Name.Space == NSFraming && ev.Name.Local == "close" {
		ev.Kind = "close"
	}
	c.add(ev)
	return ev
}

// wsFix adds the namespace declarations that a stand-alone WebSocket message needs.
func wsFix(s string) string {
	t := strings.TrimLeft(s, " \n\t")
	for _, n := range []string{"iq", "message", "presence"} {
		if strings.HasPrefix(t, "<"+n+" ") || strings.HasPrefix(t, "<"+n+">") || strings.HasPrefix(t, "<"+n+"/") {
			if !strings.Contains(strings.SplitN(t, ">", 2)[0], "xmlns=") {
				return strings.Replace(t, "<"+n, "<"+n+" xmlns='jabber:client'", 1)
			}
		}
	}
	for _, n := range []string{"stream:error", "stream:features"} {
		if strings.HasPrefix(t, "<"+n) && !strings.Contains(strings.SplitN(t, ">", 2)[0], "xmlns:stream") {
			return strings.Replace(t, "<"+n, "<"+n+" xmlns:stream='"+NSStream+"'", 1)
		}
	}
	return s
}

// wsDev adapts a WSConn to the deviation player (every send is one message with its own namespace declarations).
type wsDev struct{ c *WSConn }

func (w wsDev) Send(s string) error { return w.c.Send(wsFix(s)) }
func (w wsDev) Close()              { w.c.DropTCP(500 * time.Millisecond) }
func (w wsDev) HalfClose()          { w.c.DropTCP(500 * time.Millisecond) }

// CloseNow closes the WebSocket abruptly (no close handshake wait).
func (c *WSConn) CloseNow() {
	c.add(Event{Dir: "note", Kind: "close"})
	_ = c.ws.Close(websocket.StatusGoingAway, "bye")
}

func (s *Script) wsOpen() string {
	id := s.StreamID
	if id == "" {
		id = "stream-1"
	}
	return fmt.Sprintf(`<open xmlns="%s" id="%s" from="%s" version="1.0"/>`, NSFraming, xmlEsc(id), s.domain())
}

func (s *Script) wsFeatures(phase int) string {
	f := s.features(phase, 0)
	return strings.Replace(f, "<stream:features>", "<stream:features xmlns:stream='"+NSStream+"'>", 1)
}

// WSNegotiate plays the server side over WebSocket framing (no STARTTLS step) until the client sends its first
// non-negotiation element; deviations of the script are played like on TCP (steps open1 auth open3 resume bind
// session enable).
func (c *WSConn) WSNegotiate(s *Script, timeout time.Duration) *Outcome {
	out := &Outcome{}
	authed := false
	faulted := false
	bound := false
	deadline := time.Now().Add(timeout)
	io := wsDev{c}
	reply := func(step string, req *Event, ok func()) bool {
		out.Steps = append(out.Steps, step)
		if d, has := s.Dev[step]; has && !faulted {
			faulted = true
			out.FaultAt = step
			c.add(Event{Dir: "note", Kind: "deviation at " + step + ": " + d.Kind})
			if strings.HasPrefix(step, "open") && d.Kind == "stream-error" {
				c.Send(s.wsOpen())
			}
			return playDevOn(io, step, d, req)
		}
		ok()
		if !faulted {
			out.Completed = append(out.Completed, step)
		}
		return false
	}
	for time.Now().Before(deadline) {
		wait := time.Until(deadline)
		if bound && !faulted && !s.ExpectEnable {
			wait = IdleAfterBind
		}
		ev := c.Recv(wait)
		switch ev.Kind {
		case "timeout":
			if bound && !faulted {
				out.Established = true
			}
			return out
		case "eof", "error":
			return out
		case "close":
			c.Send(`<close xmlns="` + NSFraming + `"/>`)
			return out
		case "open":
			phase, step := 2, "open1"
			if authed {
				phase, step = 3, "open3"
			}
			if reply(step, &ev, func() { c.Send(s.wsOpen()); c.Send(s.wsFeatures(phase)) }) {
				return out
			}
		case "elem":
			e := ev
			switch {
			case e.Name.Space == NSSASL && e.Name.Local == "auth":
				cp := e
				out.AuthReq = &cp
				if reply("auth", &e, func() { c.Send("<success xmlns='" + NSSASL + "'/>"); authed = true }) {
					return out
				}
			case e.Name.Space == NSSM && e.Name.Local == "resume":
				cp := e
				out.ResumeReq = &cp
				ended := reply("resume", &e, func() {
					switch {
					case s.ResumeReply == "" || s.ResumeReply == "resumed-same":
						c.Send(fmt.Sprintf("<resumed xmlns='%s' previd='%s' h='0'/>", NSSM, xmlEsc(e.Attr["previd"])))
						out.Resumed = true
					case s.ResumeReply == "resumed-other":
						c.Send(fmt.Sprintf("<resumed xmlns='%s' previd='other-%s' h='0'/>", NSSM, xmlEsc(e.Attr["previd"])))
					default:
						c.Send("<failed xmlns='" + NSSM + "'/>")
					}
				})
				if ended {
					return out
				}
				if out.Resumed && !faulted {
					out.Established = true
					return out
				}
			case e.Name.Local == "iq" && strings.Contains(e.Raw, NSBind):
				jid := s.BindJid
				if jid == "" {
					jid = "user@" + s.domain() + "/bound"
				}
				if reply("bind", &e, func() {
					c.Send(fmt.Sprintf("<iq xmlns='jabber:client' type='result' id='%s'><bind xmlns='%s'><jid>%s</jid></bind></iq>", xmlEsc(e.Attr["id"]), NSBind, xmlEsc(jid)))
				}) {
					return out
				}
				bound = !faulted
			case e.Name.Local == "iq" && strings.Contains(e.Raw, NSSession):
				if reply("session", &e, func() {
					c.Send(fmt.Sprintf("<iq xmlns='jabber:client' type='result' id='%s'/>", xmlEsc(e.Attr["id"])))
				}) {
					return out
				}
			case e.Name.Space == NSSM && e.Name.Local == "enable":
				cp := e
				out.EnableReq = &cp
				if reply("enable", &e, func() {
					id := s.SMId
					if id == "" {
						id = "sm-id-1"
					}
					c.Send(fmt.Sprintf("<enabled xmlns='%s' id='%s' resume='true'/>", NSSM, xmlEsc(id)))
				}) {
					return out
				}
				if !faulted {
					out.Established = true
					return out
				}
			default:
				cp := e
				out.First = &cp
				out.Established = !faulted
				return out
			}
		}
	}
	return out
}
