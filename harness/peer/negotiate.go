package peer

import (
	"crypto/ecdsa"
	"crypto/elliptic"
	"crypto/rand"
	"crypto/tls"
	"crypto/x509"
	"crypto/x509/pkix"
	"fmt"
	"math/big"
	"net"
	"strings"
	"sync"
	"time"
)

const (
	NSStream  = "http://etherx.jabber.org/streams"
	NSClient  = "jabber:client"
	NSTLS     = "urn:ietf:params:xml:ns:xmpp-tls"
	NSSASL    = "urn:ietf:params:xml:ns:xmpp-sasl"
	NSBind    = "urn:ietf:params:xml:ns:xmpp-bind"
	NSSession = "urn:ietf:params:xml:ns:xmpp-session"
	NSSM      = "urn:xmpp:sm:3"
)

// Dev is a deviation from the well-behaved reply at one negotiation step.
type Dev struct {
	Kind    string `json:"kind"`              // failure stanza-error stream-error unexpected malformed truncated close halfclose
	Variant int    `json:"variant,omitempty"` // selects among several forms of the same kind
}

// Script describes how the peer behaves during session negotiation.
type Script struct {
	Domain      string   `json:"domain,omitempty"`
	StreamID    string   `json:"stream_id,omitempty"`
	OfferTLS    bool     `json:"offer_tls,omitempty"`
	TLSRequired bool     `json:"tls_required,omitempty"`
	Cert        string   `json:"cert,omitempty"` // valid wronghost untrusted expired
	Mechs       []string `json:"mechs"`
	// MechsPreTLS, when non-nil, is the mechanism list advertised before STARTTLS (Mechs is then the list after it)
	MechsPreTLS []string `json:"mechs_pre_tls,omitempty"`
	NoBind      bool     `json:"no_bind,omitempty"`
	Session     string   `json:"session,omitempty"` // "", mandatory, optional
	OfferSM     bool     `json:"offer_sm,omitempty"`
	BindJid     string   `json:"bind_jid,omitempty"`
	SMId        string   `json:"sm_id,omitempty"`
	SMResume    string   `json:"sm_resume,omitempty"` // value of the resume attribute of <enabled/>; "-" omits it
	// Glue: step -> bytes written together with the (successful) reply to that step, in one write: what a server sends
	// right behind the last reply of the negotiation must not be lost on the way to the receive loop
	Glue map[string]string `json:"glue,omitempty"`
	// AfterFault: what the server goes on to say on the connection once the negotiation has failed (right behind a
	// deviation, and before it answers the client's stream end): nothing of it may be acted upon
	AfterFault string `json:"after_fault,omitempty"`
	// ExpectEnable: the harness knows that the client will ask for stream management after the bind (it requested it and
	// the server offers it), so the peer waits for <enable/> instead of taking a silent client to be done - on a loaded
	// machine the client can take longer than IdleAfterBind to get there
	ExpectEnable bool   `json:"expect_enable,omitempty"`
	ResumeReply  string `json:"resume_reply,omitempty"` // resumed-same (default) resumed-other failed failed-h failed-item-not-found failed-unexpected-request ...
	// Dev: step -> deviation. Steps: open1 starttls tls open2 auth open3 resume bind session enable
	Dev map[string]Dev `json:"dev,omitempty"`
	// Variant: step -> which success variant to use (0 = plain)
	Variant map[string]int `json:"variant,omitempty"`
	// TLS12 caps the TLS version at 1.2 (the record layer then reports data and close_notify from one Read)
	TLS12 bool `json:"tls12,omitempty"`
	// ExtraWait makes the peer check, before each reply, whether the client already sent more (ordering oracle)
	CheckEarly bool `json:"check_early,omitempty"`
}

// Outcome is what the peer observed during negotiation.
type Outcome struct {
	Steps       []string // steps whose request was received, in order
	Completed   []string // steps the peer answered with a success reply
	FaultAt     string   // step at which a deviation was played ("" if none)
	Early       []string // steps before whose reply more client data was already pending
	Established bool     // every step the client asked for was answered successfully and the client went on (or stays connected)
	Resumed     bool
	First       *Event // first non-negotiation element received (e.g. initial presence), if any
	TLS         bool
	AuthInTLS   bool
	ResumeReq   *Event
	EnableReq   *Event
	AuthReq     *Event
}

func (s *Script) domain() string {
	if s.Domain == "" {
		return "localhost"
	}
	return s.Domain
}

func (s *Script) header() string {
	id := s.StreamID
	if id == "" {
		id = "stream-1"
	}
	return fmt.Sprintf("<?xml version='1.0'?><stream:stream xmlns='jabber:client' xmlns:stream='http://etherx.jabber.org/streams' id='%s' from='%s' version='1.0'>", xmlEsc(id), s.domain())
}

// XMLEsc escapes a string for use in attribute values and text.
func XMLEsc(s string) string { return xmlEsc(s) }

func xmlEsc(s string) string {
	return strings.NewReplacer("&", "&amp;", "<", "&lt;", ">", "&gt;", "'", "&apos;", "\"", "&quot;", "\n", "&#xA;", "\r", "&#xD;", "\t", "&#x9;").Replace(s)
}

func (s *Script) features(phase int, v int) string {
	var sb strings.Builder
	sb.WriteString("<stream:features>")
	if v == 1 {
		sb.WriteString("\n  ")
	}
	if v == 2 {
		sb.WriteString("<c xmlns='http://jabber.org/protocol/caps' hash='sha-1' node='http://x' ver='abc='/><unknown xmlns='urn:x:feature'><deep><er/></deep></unknown>")
	}
	if v == 4 {
		// features named like the ones the client knows, but from other namespaces (an older protocol version, somebody
		// else's extension): they offer nothing
		sb.WriteString("<sm xmlns='urn:xmpp:sm:2'/><starttls xmlns='urn:x:other'><required/></starttls>" +
			"<mechanisms xmlns='urn:x:other'><mechanism>PLAIN</mechanism><mechanism>X-OAUTH2</mechanism></mechanisms>" +
			"<bind xmlns='urn:x:other'/><session xmlns='urn:x:other'/>")
	}
	switch phase {
	case 1: // before TLS / auth
		if s.OfferTLS {
			if s.TLSRequired {
				sb.WriteString("<starttls xmlns='" + NSTLS + "'><required/></starttls>")
			} else {
				sb.WriteString("<starttls xmlns='" + NSTLS + "'/>")
			}
		}
		fallthrough
	case 2:
		mechs := s.Mechs
		if phase == 1 && s.OfferTLS && s.MechsPreTLS != nil {
			mechs = s.MechsPreTLS
		}
		sb.WriteString("<mechanisms xmlns='" + NSSASL + "'>")
		for _, m := range mechs {
			sb.WriteString("<mechanism>" + xmlEsc(m) + "</mechanism>")
		}
		sb.WriteString("</mechanisms>")
	case 3:
		if !s.NoBind {
			sb.WriteString("<bind xmlns='" + NSBind + "'/>")
		}
		switch s.Session {
		case "mandatory":
			sb.WriteString("<session xmlns='" + NSSession + "'/>")
		case "optional":
			sb.WriteString("<session xmlns='" + NSSession + "'><optional/></session>")
		}
		if s.OfferSM {
			sb.WriteString("<sm xmlns='" + NSSM + "'/>")
		}
	}
	if v == 3 {
		sb.WriteString("<ver xmlns='urn:xmpp:features:rosterver'/>")
	}
	sb.WriteString("</stream:features>")
	return sb.String()
}

// playDev sends the deviation for a step. Returns true if the connection was ended by it.
type devIO interface {
	Send(s string) error
	Close()
	HalfClose()
}

func (c *Conn) playDev(step string, d Dev, req *Event) (ended bool) {
	return playDevOn(c, step, d, req)
}

func playDevOn(c devIO, step string, d Dev, req *Event) (ended bool) {
	id := ""
	if req != nil {
		id = req.Attr["id"]
	}
	switch d.Kind {
	case "failure", "stanza-error":
		switch step {
		case "open1", "open2", "open3":
			c.Send("<stream:error><host-unknown xmlns='urn:ietf:params:xml:ns:xmpp-streams'/></stream:error>")
		case "starttls":
			c.Send("<failure xmlns='" + NSTLS + "'/>")
		case "auth":
			switch v := d.Variant % len(SASLFailures); v {
			case 0:
				c.Send("<failure xmlns='" + NSSASL + "'><not-authorized/></failure>")
			case 1:
				c.Send("<failure xmlns='" + NSSASL + "'><temporary-auth-failure/><text xml:lang='en'>later</text></failure>")
			case 2:
				c.Send("<failure xmlns='" + NSSASL + "'/>")
			default:
				// every condition of RFC 6120 6.5, and one nobody defined; every other one with a text
				txt := ""
				if v%2 == 0 {
					txt = "<text xml:lang='en'>" + SASLFailures[v] + " &amp; more</text>"
				}
				c.Send("<failure xmlns='" + NSSASL + "'><" + SASLFailures[v] + "/>" + txt + "</failure>")
			}
		case "resume":
			c.Send("<failed xmlns='" + NSSM + "'><item-not-found xmlns='urn:ietf:params:xml:ns:xmpp-stanzas'/></failed>")
		case "enable":
			switch d.Variant % 2 {
			case 0:
				c.Send("<failed xmlns='" + NSSM + "'><unexpected-request xmlns='urn:ietf:params:xml:ns:xmpp-stanzas'/></failed>")
			default:
				c.Send("<failed xmlns='" + NSSM + "'/>")
			}
		case "bind":
			switch d.Variant % 3 {
			case 0:
				c.Send(fmt.Sprintf("<iq type='error' id='%s'><error type='cancel'><conflict xmlns='urn:ietf:params:xml:ns:xmpp-stanzas'/></error></iq>", xmlEsc(id)))
			case 1: // error echoing the request payload, as RFC 6120 allows
				c.Send(fmt.Sprintf("<iq type='error' id='%s'><bind xmlns='%s'><resource>r</resource></bind><error type='modify'><bad-request xmlns='urn:ietf:params:xml:ns:xmpp-stanzas'/></error></iq>", xmlEsc(id), NSBind))
			default:
				c.Send(fmt.Sprintf("<iq type='error' id='%s'><bind xmlns='%s'/><error type='wait'><resource-constraint xmlns='urn:ietf:params:xml:ns:xmpp-stanzas'/></error></iq>", xmlEsc(id), NSBind))
			}
		case "session":
			switch d.Variant % 2 {
			case 0:
				c.Send(fmt.Sprintf("<iq type='error' id='%s'><error type='wait'><internal-server-error xmlns='urn:ietf:params:xml:ns:xmpp-stanzas'/></error></iq>", xmlEsc(id)))
			default:
				c.Send(fmt.Sprintf("<iq type='error' id='%s'><session xmlns='%s'/><error type='auth'><forbidden xmlns='urn:ietf:params:xml:ns:xmpp-stanzas'/></error></iq>", xmlEsc(id), NSSession))
			}
		}
	case "stream-error":
		conds := []string{"host-unknown", "policy-violation", "system-shutdown", "not-authorized"}
		c.Send("<stream:error><" + conds[d.Variant%len(conds)] + " xmlns='urn:ietf:params:xml:ns:xmpp-streams'/></stream:error>")
	case "unexpected":
		alts := []string{
			"<success xmlns='" + NSSASL + "'/>",
			"<proceed xmlns='" + NSTLS + "'/>",
			"<iq type='result' id='zzz'/>",
			"<message from='x@y'><body>hi</body></message>",
			"<enabled xmlns='" + NSSM + "' id='zz'/>",
			"<a xmlns='" + NSSM + "' h='0'/>",
			"<presence from='x@y/z'/>",
			"<stream:features/>",
			// IQs that are neither a result nor an error: a server-initiated ping, a roster push, no type at all
			"<iq type='get' id='srv-ping' from='localhost'><ping xmlns='urn:xmpp:ping'/></iq>",
			"<iq type='set' id='push-1' from='localhost'><query xmlns='jabber:iq:roster'><item jid='a@b'/></query></iq>",
			"<iq id='typeless'/>",
		}
		alt := alts[d.Variant%len(alts)]
		// never "unexpected" = the expected success reply of this step
		if (step == "auth" && strings.HasPrefix(alt, "<success")) || (step == "starttls" && strings.HasPrefix(alt, "<proceed")) ||
			(step == "enable" && strings.HasPrefix(alt, "<enabled")) || ((step == "open1" || step == "open2" || step == "open3") && strings.HasPrefix(alt, "<stream:features")) {
			alt = "<message from='x@y'><body>hi</body></message>"
		}
		c.Send(alt)
	case "malformed":
		alts := []string{"<<<", "<a></b>", "<iq type='result' id=>", "&&&", "<iq xmlns:x='urn:x' x:y='1' x:y='2'></bogus>"}
		c.Send(alts[d.Variant%len(alts)])
	case "truncated":
		alts := []string{"<iq type='result' id='x'><bind xmlns='" + NSBind + "'><jid>a@b", "<success xmlns='" + NSSASL, "<stream:features><bind", "<enabled xmlns='" + NSSM + "' id='a"}
		c.Send(alts[d.Variant%len(alts)])
		c.Close()
		return true
	case "close":
		c.Close()
		return true
	case "halfclose":
		c.HalfClose()
		return false
	}
	return false
}

// SASLFailures are the forms of <failure/> the peer can answer <auth/> with (Dev{Kind: "failure"}, by variant): the
// first three are fixed forms (not-authorized, temporary-auth-failure with a text, no condition at all).
var SASLFailures = []string{"not-authorized", "temporary-auth-failure", "", "aborted", "account-disabled", "credentials-expired",
	"encryption-required", "incorrect-encoding", "invalid-authzid", "invalid-mechanism", "malformed-request", "mechanism-too-weak",
	"x-site-specific-condition"}

// IdleAfterBind is how long the client may stay silent after a successful bind before the peer takes the
// negotiation to be complete (the harness scales it while confirming timing-dependent verdicts).
var IdleAfterBind = 250 * time.Millisecond

// Negotiate plays the server side of session negotiation reactively: it
// answers each client request according to the script until the client sends
// something that is not part of negotiation, the stream ends, or a deviation
// was played (after which it only answers the client's </stream:stream> so
// that a failed Connect finishes quickly).
func (c *Conn) Negotiate(s *Script, timeout time.Duration) *Outcome {
	out := &Outcome{}
	opens := 0
	authed := false
	deadline := time.Now().Add(timeout)
	expectOpen := true
	faulted := false
	reply := func(step string, req *Event, ok func()) bool {
		out.Steps = append(out.Steps, step)
		if s.CheckEarly && c.Pending(3*time.Millisecond) {
			out.Early = append(out.Early, step)
		}
		if d, has := s.Dev[step]; has && !faulted {
			faulted = true
			out.FaultAt = step
			c.Note("deviation at " + step + ": " + d.Kind)
			if strings.HasPrefix(step, "open") && d.Kind == "stream-error" {
				c.Send(s.header()) // a stream error is sent inside a stream
			}
			ended := c.playDev(step, d, req)
			if !ended && s.AfterFault != "" {
				c.Send(s.AfterFault)
			}
			return ended
		}
		if g, has := s.Glue[step]; has {
			c.glueNext = g
		}
		ok()
		c.glueNext = ""
		if !faulted {
			out.Completed = append(out.Completed, step)
		}
		return false
	}
	bound := false
	for time.Now().Before(deadline) {
		var ev Event
		if expectOpen {
			ev = c.ExpectOpen(time.Until(deadline))
			expectOpen = false
		} else if bound && !faulted && !s.ExpectEnable {
			// After a successful bind the client may be done (Client.Resume sends nothing more): when it stays
			// silent for IdleAfterBind the negotiation is taken to be complete.
			ev = c.NextElem(IdleAfterBind)
			if ev.Kind == "timeout" {
				out.Established = true
				return out
			}
		} else {
			ev = c.NextElem(time.Until(deadline))
		}
		switch ev.Kind {
		case "eof", "error", "timeout":
			return out
		case "close":
			if s.AfterFault != "" && !out.Established && !faulted {
				c.Send(s.AfterFault) // the client gave up on its own (e.g. no STARTTLS on offer): the server talks on
			}
			if s.AfterFault != "" {
				// what the client still writes after its own stream end (an answer to what the server just said?) is
				// recorded as well: the peer lingers a moment before it ends the stream from its side
				lingerUntil := time.Now().Add(150 * time.Millisecond)
				for time.Now().Before(lingerUntil) {
					if ev := c.Next(time.Until(lingerUntil)); ev.Kind == "eof" || ev.Kind == "error" || ev.Kind == "timeout" {
						break
					}
				}
			}
			c.Send("</stream:stream>")
			c.Close()
			return out
		case "open":
			opens++
			step := fmt.Sprintf("open%d", opens)
			if opens > 3 {
				step = "open3"
			}
			phase := 1
			switch {
			case authed:
				phase = 3
			case c.inTLS:
				phase = 2
			}
			stepName := map[int]string{1: "open1", 2: "open2", 3: "open3"}[phase]
			_ = step
			if reply(stepName, &ev, func() { c.Send(s.header() + s.features(phase, s.Variant[stepName])) }) {
				return out
			}
		case "elem":
			e := ev
			switch {
			case e.Name.Space == NSTLS && e.Name.Local == "starttls":
				ended := reply("starttls", &e, func() { c.Send("<proceed xmlns='" + NSTLS + "'/>") })
				if ended {
					return out
				}
				if faulted {
					continue
				}
				// TLS handshake is its own step
				out.Steps = append(out.Steps, "tls")
				if d, has := s.Dev["tls"]; has {
					faulted = true
					out.FaultAt = "tls"
					switch d.Kind {
					case "close":
						c.Close()
						return out
					default:
						// wait for the ClientHello first: bytes sent right behind <proceed/> could be swallowed by the
						// client's clear-text XML reader, which would turn this fault into plain silence
						c.Pending(2 * time.Second)
						c.Send("garbage-instead-of-tls-handshake")
						continue
					}
				}
				tcfg := ServerTLSConfig(s.Cert, s.domain())
				if s.TLS12 {
					tcfg.MaxVersion = tls.VersionTLS12
				}
				if err := c.StartTLS(tcfg); err != nil {
					// the client refused the certificate (or failed otherwise): keep reading clear text? the socket is unusable
					out.FaultAt = "tls"
					faulted = true
					c.Drain(2 * time.Second)
					return out
				}
				out.TLS = true
				out.Completed = append(out.Completed, "tls")
				expectOpen = true
			case e.Name.Space == NSSASL && e.Name.Local == "auth":
				cp := e
				out.AuthReq = &cp
				out.AuthInTLS = c.inTLS
				if reply("auth", &e, func() { c.Send("<success xmlns='" + NSSASL + "'/>"); authed = true; expectOpen = true }) {
					return out
				}
			case e.Name.Space == NSSM && e.Name.Local == "resume":
				cp := e
				out.ResumeReq = &cp
				ended := reply("resume", &e, func() {
					switch s.ResumeReply {
					case "", "resumed-same":
						c.Send(fmt.Sprintf("<resumed xmlns='%s' previd='%s' h='0'/>", NSSM, xmlEsc(e.Attr["previd"])))
						out.Resumed = true
					case "resumed-other":
						c.Send(fmt.Sprintf("<resumed xmlns='%s' previd='%s' h='0'/>", NSSM, "other-"+xmlEsc(e.Attr["previd"])))
					case "resumed-noid":
						c.Send(fmt.Sprintf("<resumed xmlns='%s' h='0'/>", NSSM))
					case "resumed-emptyid":
						c.Send(fmt.Sprintf("<resumed xmlns='%s' previd='' h='0'/>", NSSM))
					case "failed":
						c.Send("<failed xmlns='" + NSSM + "'/>")
					case "failed-h":
						c.Send("<failed xmlns='" + NSSM + "' h='3'/>")
					default:
						cond := strings.TrimPrefix(s.ResumeReply, "failed-")
						c.Send("<failed xmlns='" + NSSM + "' h='1'><" + cond + " xmlns='urn:ietf:params:xml:ns:xmpp-stanzas'/></failed>")
					}
				})
				if ended {
					return out
				}
				if out.Resumed && !faulted {
					out.Established = true
					return out
				}
			case e.Name.Local == "iq" && strings.Contains(e.Raw, NSBind):
				jid := s.BindJid
				if jid == "" {
					jid = "user@" + s.domain() + "/bound"
				}
				if reply("bind", &e, func() {
					switch s.Variant["bind"] % 2 {
					case 0:
						c.Send(fmt.Sprintf("<iq type='result' id='%s'><bind xmlns='%s'><jid>%s</jid></bind></iq>", xmlEsc(e.Attr["id"]), NSBind, xmlEsc(jid)))
					default:
						c.Send(fmt.Sprintf("\n<iq id=\"%s\" type=\"result\" to=\"%s\"><bind xmlns=\"%s\">\n <jid>%s</jid>\n</bind></iq>", xmlEsc(e.Attr["id"]), xmlEsc(jid), NSBind, xmlEsc(jid)))
					}
				}) {
					return out
				}
				bound = !faulted
			case e.Name.Local == "iq" && strings.Contains(e.Raw, NSSession):
				if reply("session", &e, func() {
					c.Send(fmt.Sprintf("<iq type='result' id='%s'/>", xmlEsc(e.Attr["id"])))
				}) {
					return out
				}
			case e.Name.Space == NSSM && e.Name.Local == "enable":
				cp := e
				out.EnableReq = &cp
				if reply("enable", &e, func() {
					id := s.SMId
					if id == "" {
						id = "sm-id-1"
					}
					res := s.SMResume
					attr := ""
					switch res {
					case "-":
					case "":
						attr = " resume='true'"
					default:
						attr = " resume='" + xmlEsc(res) + "'"
					}
					switch s.Variant["enable"] % 2 {
					case 0:
						c.Send(fmt.Sprintf("<enabled xmlns='%s' id='%s'%s/>", NSSM, xmlEsc(id), attr))
					default:
						c.Send(fmt.Sprintf("<enabled xmlns='%s' id='%s'%s location='[::1]:5222' max='300'/>", NSSM, xmlEsc(id), attr))
					}
				}) {
					return out
				}
				if !faulted {
					// enabling stream management is always the last step of the negotiation
					out.Established = true
					return out
				}
			default:
				// not a negotiation element: negotiation is over from the client's point of view
				cp := e
				out.First = &cp
				out.Established = !faulted
				return out
			}
		}
	}
	return out
}

// AfterFault keeps answering the client's </stream:stream> so that the failure path of Connect is quick.
func (c *Conn) AfterFault(timeout time.Duration) {
	deadline := time.Now().Add(timeout)
	for time.Now().Before(deadline) {
		ev := c.NextElem(time.Until(deadline))
		switch ev.Kind {
		case "close":
			c.Send("</stream:stream>")
			c.Close()
			return
		case "eof", "error", "timeout":
			c.Close()
			return
		}
	}
}

// ---------------------------------------------------------------------------
// certificates

var (
	certOnce sync.Once
	caPool   *x509.CertPool
	certs    = map[string]tls.Certificate{}
	certErr  error
)

func mkCert(cn string, dns []string, ips []net.IP, parent *x509.Certificate, parentKey *ecdsa.PrivateKey, isCA bool, notBefore, notAfter time.Time, serial int64) (*x509.Certificate, *ecdsa.PrivateKey, []byte, error) {
	key, err := ecdsa.GenerateKey(elliptic.P256(), rand.Reader)
	if err != nil {
		return nil, nil, nil, err
	}
	tpl := &x509.Certificate{
		SerialNumber: big.NewInt(serial), Subject: pkix.Name{CommonName: cn},
		NotBefore: notBefore, NotAfter: notAfter, DNSNames: dns, IPAddresses: ips,
		KeyUsage: x509.KeyUsageDigitalSignature, ExtKeyUsage: []x509.ExtKeyUsage{x509.ExtKeyUsageServerAuth}, BasicConstraintsValid: true,
	}
	if isCA {
		tpl.IsCA = true
		tpl.KeyUsage |= x509.KeyUsageCertSign
	}
	p, pk := parent, parentKey
	if p == nil {
		p, pk = tpl, key
	}
	der, err := x509.CreateCertificate(rand.Reader, tpl, p, &key.PublicKey, pk)
	if err != nil {
		return nil, nil, nil, err
	}
	cert, err := x509.ParseCertificate(der)
	return cert, key, der, err
}

func initCerts() {
	now := time.Now()
	ca, caKey, _, err := mkCert("verif test CA", nil, nil, nil, nil, true, now.Add(-time.Hour), now.Add(240*time.Hour), 1)
	if err != nil {
		certErr = err
		return
	}
	caPool = x509.NewCertPool()
	caPool.AddCert(ca)
	other, otherKey, _, err := mkCert("other CA", nil, nil, nil, nil, true, now.Add(-time.Hour), now.Add(240*time.Hour), 2)
	if err != nil {
		certErr = err
		return
	}
	_ = other
	add := func(name string, dns []string, parent *x509.Certificate, pk *ecdsa.PrivateKey, nb, na time.Time, serial int64) {
		_, key, der, err := mkCert(dns[0], dns, nil, parent, pk, false, nb, na, serial)
		if err != nil {
			certErr = err
			return
		}
		certs[name] = tls.Certificate{Certificate: [][]byte{der}, PrivateKey: key}
	}
	add("valid", []string{"localhost"}, ca, caKey, now.Add(-time.Hour), now.Add(24*time.Hour), 10)
	add("wronghost", []string{"other.example"}, ca, caKey, now.Add(-time.Hour), now.Add(24*time.Hour), 11)
	add("untrusted", []string{"localhost"}, other, otherKey, now.Add(-time.Hour), now.Add(24*time.Hour), 12)
	add("expired", []string{"localhost"}, ca, caKey, now.Add(-48*time.Hour), now.Add(-24*time.Hour), 13)
	add("altname", []string{"alt.example"}, ca, caKey, now.Add(-time.Hour), now.Add(24*time.Hour), 14) // valid only for the name alt.example
	add("both", []string{"localhost", "alt.example"}, ca, caKey, now.Add(-time.Hour), now.Add(24*time.Hour), 15)
}

// CAPool returns the pool holding the test CA (what a client trusts).
func CAPool() *x509.CertPool {
	certOnce.Do(initCerts)
	return caPool
}

// ServerTLSConfig returns the server TLS configuration presenting the named certificate.
func ServerTLSConfig(name, domain string) *tls.Config {
	certOnce.Do(initCerts)
	if name == "" {
		name = "valid"
	}
	c, ok := certs[name]
	if !ok {
		c = certs["valid"]
	}
	return &tls.Config{Certificates: []tls.Certificate{c}, MinVersion: tls.VersionTLS12}
}
