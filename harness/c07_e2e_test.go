package harness

// C07 end to end — the request/response path through the real receive loop: SendIQ on a real Client or Component
// against the scripted peer, which answers once or several times; for a Client the request may be issued from inside
// a route handler that waits for the result (handlers run concurrently for a client, so that must work).

import (
	"context"
	"fmt"
	"sync"
	"testing"
	"time"

	xmpp "gosrc.io/xmpp"
	"gosrc.io/xmpp/stanza"
	"pgregory.net/rapid"
	"verifharness/peer"
	"verifharness/vh"
)

type c07E2ECase struct {
	Entity      string `json:"entity"`       // client component
	FromHandler bool   `json:"from_handler"` // client only: SendIQ is called by the handler of an inbound message, which then waits
	N           int    `json:"n"`            // requests, one after the other
	Copies      int    `json:"copies"`       // how often the server sends each response (1 = once)
	Kind        string `json:"kind"`         // result error
	SM          bool   `json:"sm"`
	// AcrossReconnect (client, requests from the test goroutine): the server leaves the request unanswered and drops the
	// connection; the application reconnects (same Client, same Router) while the request's context is still alive, and
	// the answer arrives on the new connection
	AcrossReconnect bool `json:"across_reconnect,omitempty"`
}

func genC07E2E(t *rapid.T) c07E2ECase {
	c := c07E2ECase{
		Entity: rapid.SampledFrom([]string{"client", "client", "component"}).Draw(t, "entity"),
		N:      rapid.IntRange(1, 3).Draw(t, "n"),
		Copies: rapid.SampledFrom([]int{1, 1, 2, 3}).Draw(t, "copies"),
		Kind:   rapid.SampledFrom([]string{"result", "error"}).Draw(t, "kind"),
	}
	if c.Entity == "client" {
		c.FromHandler = rapid.Bool().Draw(t, "fromHandler")
		c.SM = rapid.Bool().Draw(t, "sm")
		if !c.FromHandler && rapid.IntRange(0, 2).Draw(t, "acrossReconnect") == 0 {
			c.AcrossReconnect = true
			c.N = 1
			c.SM = false
		}
	}
	return c
}

func runC07E2E(c c07E2ECase) vh.Result {
	var res vh.Result
	res.NonTrivial = c.FromHandler || c.Copies > 1 || c.N > 1
	res.Label(c.Entity)
	if c.FromHandler {
		res.Label("request-from-inside-a-handler")
	}
	if c.Copies > 1 {
		res.Label("duplicate-responses")
	}
	ready := make(chan *peer.Conn, 1)
	reconnected := make(chan *peer.Conn, 1)
	srv, err := peer.Listen(func(pc *peer.Conn) {
		if c.Entity == "component" {
			if ev := pc.ExpectOpen(10 * time.Second); ev.Kind != "open" {
				ready <- nil
				return
			}
			pc.Send("<?xml version='1.0'?><stream:stream xmlns='jabber:component:accept' xmlns:stream='http://etherx.jabber.org/streams' from='comp.localhost' id='sid'>")
			if ev := pc.NextElem(10 * time.Second); ev.Kind != "elem" {
				ready <- nil
				return
			}
			pc.Send("<handshake/>")
		} else {
			out := pc.Negotiate(&peer.Script{Mechs: []string{"PLAIN"}, OfferSM: c.SM, ExpectEnable: c.SM}, 10*time.Second)
			if !out.Established {
				ready <- nil
				return
			}
		}
		if c.AcrossReconnect && pc.Index == 0 {
			ready <- pc
			// the request arrives and stays unanswered; the connection goes away
			for {
				ev := pc.NextElem(10 * time.Second)
				if ev.Kind != "elem" {
					return
				}
				if ev.Name.Local == "iq" && ev.Attr["type"] == "get" {
					break
				}
			}
			pc.GracefulClose(time.Second)
			return
		}
		if c.AcrossReconnect && pc.Index == 1 {
			// the answer to the request made on the previous connection arrives here, unasked
			resp := "<iq type='result' id='q-t0' from='localhost'><query xmlns='jabber:iq:version'><name>n</name></query></iq>"
			if c.Kind == "error" {
				resp = "<iq type='error' id='q-t0' from='localhost'><error type='cancel'><item-not-found xmlns='urn:ietf:params:xml:ns:xmpp-stanzas'/></error></iq>"
			}
			for i := 0; i < c.Copies; i++ {
				pc.Send(resp)
			}
			reconnected <- pc
			pc.Drain(10 * time.Second)
			return
		}
		ready <- pc
		// answer every IQ request the configured number of times
		for {
			ev := pc.NextElem(30 * time.Second)
			switch ev.Kind {
			case "elem":
				if ev.Name.Local == "iq" && (ev.Attr["type"] == "get" || ev.Attr["type"] == "set") {
					resp := fmt.Sprintf("<iq type='result' id='%s' from='localhost'><query xmlns='jabber:iq:version'><name>n</name></query></iq>", peer.XMLEsc(ev.Attr["id"]))
					if c.Kind == "error" {
						resp = fmt.Sprintf("<iq type='error' id='%s' from='localhost'><error type='cancel'><item-not-found xmlns='urn:ietf:params:xml:ns:xmpp-stanzas'/></error></iq>", peer.XMLEsc(ev.Attr["id"]))
					}
					for i := 0; i < c.Copies; i++ {
						pc.Send(resp)
					}
				}
			case "close":
				pc.Send("</stream:stream>")
				pc.GracefulClose(time.Second)
				return
			default:
				return
			}
		}
	})
	if err != nil {
		res.Fail("harness", "listen: %v", err)
		return res
	}
	defer srv.Close()

	type outcome struct {
		id    string
		got   []stanza.IQ
		open  bool // the channel was still open when the wait ended
		err   error
		waitd time.Duration
	}
	var mu sync.Mutex
	var outcomes []outcome
	var ordinary []string // ids of IQ results / errors that reached the ordinary routes
	done := make(chan struct{}, 8)
	var lateCancels []context.CancelFunc
	defer func() {
		mu.Lock()
		defer mu.Unlock()
		for _, f := range lateCancels {
			f()
		}
	}()
	var sender xmpp.Sender
	request := func(id string) {
		ctx, cancel := context.WithTimeout(context.Background(), vh.Margin(3*time.Second))
		if c.AcrossReconnect {
			// as in the library's own example (ctx, _ := context.WithTimeout(...)): the context simply runs out
			defer func() { mu.Lock(); lateCancels = append(lateCancels, cancel); mu.Unlock() }()
		} else {
			defer cancel()
		}
		iq, _ := stanza.NewIQ(stanza.Attrs{Type: stanza.IQTypeGet, Id: id, To: "localhost"})
		iq.Payload = &stanza.Version{}
		o := outcome{id: id}
		t0 := time.Now()
		ch, err := sender.SendIQ(ctx, iq)
		if err != nil {
			o.err = err
		} else {
			select {
			case r, ok := <-ch:
				if ok {
					o.got = append(o.got, r)
					// anything more on the same channel?
					select {
					case r2, ok2 := <-ch:
						if ok2 {
							o.got = append(o.got, r2)
							o.open = true
						}
					case <-time.After(vh.Margin(50 * time.Millisecond)):
						o.open = true
					}
				}
			case <-ctx.Done():
				o.open = true
			}
		}
		o.waitd = time.Since(t0)
		mu.Lock()
		outcomes = append(outcomes, o)
		mu.Unlock()
		done <- struct{}{}
	}
	router := xmpp.NewRouter()
	router.NewRoute().Packet("message").HandlerFunc(func(s xmpp.Sender, p stanza.Packet) {
		if m, ok := p.(stanza.Message); ok && c.FromHandler {
			request("q-" + m.Id) // the handler waits for the answer before it returns
		}
	})
	router.NewRoute().Packet("iq").HandlerFunc(func(s xmpp.Sender, p stanza.Packet) {
		if iq, ok := p.(*stanza.IQ); ok && (iq.Type == stanza.IQTypeResult || iq.Type == stanza.IQTypeError) {
			mu.Lock()
			ordinary = append(ordinary, iq.Id)
			mu.Unlock()
		}
	})
	var disconnect func() error
	var theClient *xmpp.Client
	lost := make(chan struct{}, 1)
	if c.Entity == "component" {
		comp, err := xmpp.NewComponent(xmpp.ComponentOptions{
			TransportConfiguration: xmpp.TransportConfiguration{Address: srv.Addr, Domain: "comp.localhost", ConnectTimeout: 1},
			Domain:                 "comp.localhost", Secret: "s"}, router, func(error) {})
		if err != nil {
			res.Fail("harness", "NewComponent: %v", err)
			return res
		}
		if err := comp.Connect(); err != nil {
			res.Fail("harness-connect", "Connect: %v", err)
			return res
		}
		sender, disconnect = comp, comp.Disconnect
	} else {
		cfg := &xmpp.Config{
			TransportConfiguration: xmpp.TransportConfiguration{Address: srv.Addr, Domain: "localhost"},
			Jid:                    "user@localhost/res", Credential: xmpp.Password("secret"), Insecure: true, ConnectTimeout: 1,
			KeepaliveInterval: time.Hour, StreamManagementEnable: c.SM,
		}
		if c.SM {
			xmpp.VerifSetResume(cfg, true)
		}
		cl, err := xmpp.NewClient(cfg, router, func(error) {})
		if err != nil {
			res.Fail("harness", "NewClient: %v", err)
			return res
		}
		if err := cl.Connect(); err != nil {
			res.Fail("harness-connect", "Connect: %v", err)
			return res
		}
		sender, disconnect = cl, cl.Disconnect
		theClient = cl
		cl.SetHandler(func(e xmpp.Event) error {
			if xmpp.VerifEventState(e) == xmpp.StateDisconnected {
				select {
				case lost <- struct{}{}:
				default:
				}
			}
			return nil
		})
	}
	defer func() { go func() { _ = disconnect() }() }()
	var pc *peer.Conn
	select {
	case pc = <-ready:
		if pc == nil {
			res.Fail("harness-not-established", "session not established")
			return res
		}
	case <-time.After(10 * time.Second):
		res.Fail("harness", "peer not ready")
		return res
	}
	desc := fmt.Sprintf("%+v", c)
	if c.AcrossReconnect {
		res.Label("response-arrives-after-reconnection")
		go request("q-t0")
		select {
		case <-lost:
		case <-time.After(vh.Margin(5 * time.Second)):
			res.Fail("harness-no-loss", "%s: the connection was dropped but no Disconnected event followed", desc)
			return res
		}
		if err := theClient.Resume(); err != nil {
			res.Fail("harness-resume", "%s: reconnecting failed: %v", desc, err)
			return res
		}
		select {
		case <-reconnected:
		case <-time.After(10 * time.Second):
			res.Fail("harness", "second connection not established")
			return res
		}
		select {
		case <-done:
		case <-time.After(vh.Margin(8 * time.Second)):
			res.Fail("t/request-never-finished", "%s: request q-t0 neither got its response nor timed out", desc)
			return res
		}
		time.Sleep(vh.Margin(60 * time.Millisecond))
		mu.Lock()
		defer mu.Unlock()
		// The request was still pending when its answer arrived on the new connection: it is delivered to the caller
		// once (the pending entry lives as long as the request's context) or, if the library chose to end pending
		// requests with the connection, to the ordinary routes - but never lost, never twice, and the process lives.
		o := outcomes[0]
		n := 0
		for _, id := range ordinary {
			if id == "q-t0" {
				n++
			}
		}
		switch {
		case len(o.got) > 1:
			res.Fail("response-delivered-twice", "%s: %d responses on the caller's channel", desc, len(o.got))
		case len(o.got)+n != c.Copies:
			res.Fail("t/late-response-lost", "%s: the server sent %d copies on the new connection; the caller got %d, the ordinary routes %d", desc, c.Copies, len(o.got), n)
		}
		return res
	}
	for i := 0; i < c.N; i++ {
		id := fmt.Sprintf("q-t%d", i)
		if c.FromHandler {
			pc.Send(inboundStanza("m", fmt.Sprintf("t%d", i), 0))
		} else {
			go request(id)
		}
		select {
		case <-done:
		case <-time.After(vh.Margin(8 * time.Second)):
			res.Fail("t/request-never-finished", "%s: request %s neither got its response nor timed out", desc, id)
			return res
		}
	}
	time.Sleep(vh.Margin(60 * time.Millisecond)) // duplicates on their way to the ordinary routes
	mu.Lock()
	defer mu.Unlock()
	for _, o := range outcomes {
		switch {
		case o.err != nil:
			res.Fail("sendiq-error", "%s: SendIQ(%s) failed on a healthy connection: %v", desc, o.id, o.err)
		case len(o.got) == 0:
			res.Fail("t/response-not-delivered", "%s: the server answered request %s %d times but the caller's channel delivered nothing within %v", desc, o.id, c.Copies, o.waitd)
		case len(o.got) > 1:
			res.Fail("response-delivered-twice", "%s: request %s: %d responses on the caller's channel", desc, o.id, len(o.got))
		case o.got[0].Id != o.id:
			res.Fail("foreign-response", "%s: request %s received the response with id %s", desc, o.id, o.got[0].Id)
		case o.open:
			res.Fail("channel-left-open", "%s: request %s: the channel was not closed after the response", desc, o.id)
		}
		n := 0
		for _, id := range ordinary {
			if id == o.id {
				n++
			}
		}
		if len(o.got) == 1 && n != c.Copies-1 {
			res.Fail("t/duplicates-misrouted", "%s: request %s: the server sent %d copies, one went to the caller, %d reached the ordinary routes (expected %d)", desc, o.id, c.Copies, n, c.Copies-1)
		}
	}
	return res
}

var c07e2e = vh.Define(&vh.Def[c07E2ECase]{
	Property: "C07", Name: "e2e",
	Rule: "1-3 SendIQ requests on a real Client (SM on/off) or Component against the scripted peer, which answers each with a result or an error, once or 2-3 times; for a Client the request is issued, in half of the cases, by the handler of an inbound message, which waits for the answer before it returns (handlers run concurrently for a client), or - a third of the other client cases - the request stays unanswered, the connection is dropped, the application reconnects and the answer arrives on the new connection (it goes to the caller or to the ordinary routes, every copy exactly once, and the process survives); oracle: the caller's channel delivers exactly its own response once and is closed, within the request's 3 s context; the further copies reach the ordinary routes, none is lost; non-trivial = a request from inside a handler, duplicates, or several requests",
	Quick: 120, Thorough: 3000, Journal: true,
	Gen: genC07E2E, Run: runC07E2E,
})

func TestC07_e2e(t *testing.T) { c07e2e.Check(t) }
