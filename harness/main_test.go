package harness

import (
	"testing"

	"verifharness/vh"
)

func TestMain(m *testing.M) { vh.Main(m) }

// TestReplay runs the single case file named by VERIF_REPLAY, without rapid.
func TestReplay(t *testing.T) { vh.Replay(t) }
