package harness

import (
	"testing"
	"time"

	"verifharness/peer"

	"verifharness/vh"
)

func TestMain(m *testing.M) {
	vh.OnMargin = func(f int) { peer.IdleAfterBind = time.Duration(f) * 250 * time.Millisecond }
	vh.Main(m)
}

// TestReplay runs the single case file named by VERIF_REPLAY, without rapid.
func TestReplay(t *testing.T) { vh.Replay(t) }
