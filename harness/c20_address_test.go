package harness

// C20 — address normalisation and transport choice.

import (
	"errors"
	"fmt"
	"net"
	"strconv"
	"strings"
	"testing"

	xmpp "gosrc.io/xmpp"
	"pgregory.net/rapid"
	"verifharness/vh"
)

type c20Case struct {
	Host      string `json:"host"`      // without brackets
	Kind      string `json:"kind"`      // dns ipv4 ipv6 ws wss
	Bracketed bool   `json:"bracketed"` // ipv6 only
	HasPort   bool   `json:"has_port"`
	Port      int    `json:"port"`
	Path      string `json:"path,omitempty"` // ws only
	// WSRest (ws / wss only): when set, everything after "ws:" / "wss:" verbatim - host shapes a URL parser may refuse
	// (bare or zoned IPv6, odd ports, escapes, no slashes): the scheme alone selects the transport
	WSRest string `json:"ws_rest,omitempty"`
}

func genLabel(t *rapid.T) string {
	return rapid.StringMatching(`[a-z0-9]([a-z0-9-]{0,6}[a-z0-9])?`).Draw(t, "label")
}

func genIPv6(t *rapid.T) string {
	h := func() string { return fmt.Sprintf("%x", rapid.IntRange(0, 0xffff).Draw(t, "hextet")) }
	var s string
	switch rapid.IntRange(0, 7).Draw(t, "v6shape") {
	case 0:
		s = "::"
	case 1:
		s = "::1"
	case 2: // full form
		parts := make([]string, 8)
		for i := range parts {
			parts[i] = h()
		}
		s = strings.Join(parts, ":")
	case 3: // compressed anywhere: a groups, "::", b groups, a+b <= 7 (so up to eight colons, at either end too)
		a := rapid.IntRange(0, 7).Draw(t, "a")
		b := rapid.IntRange(0, 7-a).Draw(t, "b")
		var l, r []string
		for i := 0; i < a; i++ {
			l = append(l, h())
		}
		for i := 0; i < b; i++ {
			r = append(r, h())
		}
		s = strings.Join(l, ":") + "::" + strings.Join(r, ":")
	case 4: // leading compression
		s = "::" + h() + ":" + h()
	case 5: // trailing compression
		s = h() + ":" + h() + "::"
	case 6: // IPv4-mapped
		s = fmt.Sprintf("::ffff:%d.%d.%d.%d", rapid.IntRange(0, 255).Draw(t, "o"), rapid.IntRange(0, 255).Draw(t, "o"), rapid.IntRange(0, 255).Draw(t, "o"), rapid.IntRange(0, 255).Draw(t, "o"))
	default: // link local with a zone
		s = "fe80::" + h() + "%" + rapid.SampledFrom([]string{"eth0", "1", "en0", "wlan-1"}).Draw(t, "zone")
	}
	if rapid.Bool().Draw(t, "upper") {
		s = strings.ToUpper(s)
	}
	return s
}

func genC20(t *rapid.T) c20Case {
	c := c20Case{}
	c.Kind = rapid.SampledFrom([]string{"dns", "dns", "ipv4", "ipv6", "ipv6", "ipv6", "ws", "wss"}).Draw(t, "kind")
	switch c.Kind {
	case "dns", "ws", "wss":
		n := rapid.IntRange(1, 4).Draw(t, "labels")
		var ls []string
		for i := 0; i < n; i++ {
			ls = append(ls, genLabel(t))
		}
		c.Host = strings.Join(ls, ".")
		if c.Kind == "dns" && rapid.IntRange(0, 5).Draw(t, "dot") == 0 {
			c.Host += "."
		}
		if c.Kind != "dns" {
			c.Path = rapid.SampledFrom([]string{"", "/", "/xmpp-websocket", "/ws/"}).Draw(t, "path")
			switch rapid.IntRange(0, 5).Draw(t, "wsHost") {
			case 0: // an IPv6 literal, bracketed or not, possibly zoned
				v6 := genIPv6(t)
				if rapid.Bool().Draw(t, "wsBracketed") {
					v6 = "[" + v6 + "]"
				}
				c.WSRest = "//" + v6 + rapid.SampledFrom([]string{"", ":5280", ":443"}).Draw(t, "wsPort") + c.Path
			case 1: // IPv4
				c.WSRest = fmt.Sprintf("//%d.%d.%d.%d", rapid.IntRange(0, 255).Draw(t, "o"), rapid.IntRange(0, 255).Draw(t, "o"), rapid.IntRange(0, 255).Draw(t, "o"), rapid.IntRange(0, 255).Draw(t, "o")) + c.Path
			case 2: // things a strict URL parser does not like
				c.WSRest = rapid.SampledFrom([]string{"//host:port/ws", "//host:99999", "//ho st/ws", "//host/%zz", "//%41host", "//user:pw@host:5280/ws", "//host/ws?x=1#f", "//", "", "host", "/host/ws", "//host:/ws", "//[::1/ws", "//::1]/ws", "///ws"}).Draw(t, "wsOdd")
			}
		}
	case "ipv4":
		c.Host = fmt.Sprintf("%d.%d.%d.%d", rapid.IntRange(0, 255).Draw(t, "o"), rapid.IntRange(0, 255).Draw(t, "o"), rapid.IntRange(0, 255).Draw(t, "o"), rapid.IntRange(0, 255).Draw(t, "o"))
	case "ipv6":
		c.Host = genIPv6(t)
		c.Bracketed = rapid.Bool().Draw(t, "bracketed")
	}
	c.HasPort = rapid.Bool().Draw(t, "hasPort")
	if c.HasPort {
		switch rapid.IntRange(0, 3).Draw(t, "portClass") {
		case 0:
			c.Port = rapid.SampledFrom([]int{0, 1, 80, 443, 5222, 5223, 5269, 5347, 65535}).Draw(t, "port")
		default:
			c.Port = rapid.IntRange(0, 65535).Draw(t, "port")
		}
	}
	return c
}

func (c c20Case) address() string {
	h := c.Host
	if c.Kind == "ipv6" && c.Bracketed {
		h = "[" + h + "]"
	}
	if c.HasPort {
		h += ":" + strconv.Itoa(c.Port)
	}
	switch c.Kind {
	case "ws", "wss":
		if c.WSRest != "" || c.Host == "" {
			return c.Kind + ":" + c.WSRest
		}
		return c.Kind + "://" + h + c.Path
	}
	return h
}

func runC20(c c20Case) vh.Result {
	var res vh.Result
	res.Label(c.Kind)
	if c.Kind == "ipv6" && !c.Bracketed && c.HasPort {
		// bare IPv6 literal directly followed by :port — inherently ambiguous, nothing asserted
		res.Excluded = true
		res.Label("excluded-bare-ipv6-port")
		_ = xmpp.NewClientTransport(xmpp.TransportConfiguration{Address: c.address()})
		return res
	}
	if c.Kind == "dns" && (c.Host == "ws" || c.Host == "wss") && c.HasPort {
		// "ws:5222" reads both as scheme and as host:port — ambiguous, nothing asserted
		res.Excluded = true
		return res
	}
	addr := c.address()
	res.NonTrivial = c.Kind == "ipv6" || c.HasPort
	if c.HasPort {
		res.Label("explicit-port")
	}
	ct := xmpp.NewClientTransport(xmpp.TransportConfiguration{Address: addr, Domain: "example.org"})
	// the same through the constructor an application uses
	var nct xmpp.Transport
	if cl, err := xmpp.NewClient(&xmpp.Config{TransportConfiguration: xmpp.TransportConfiguration{Address: addr}, Jid: "user@example.org", Credential: xmpp.Password("p")}, xmpp.NewRouter(), func(error) {}); err != nil {
		res.Fail("newclient-refuses-address", "NewClient with Address %q failed: %v", addr, err)
		return res
	} else {
		nct = xmpp.VerifGetTransport(cl)
	}
	kt, kerr := xmpp.NewComponentTransport(xmpp.TransportConfiguration{Address: addr, Domain: "example.org"})
	if c.Kind == "ws" || c.Kind == "wss" {
		if c.WSRest != "" {
			res.Label("ws-unusual-host")
			res.NonTrivial = true
		}
		w, ok := ct.(*xmpp.WebsocketTransport)
		if !ok {
			res.Fail("ws-not-selected", "NewClientTransport(%q) returned %T, expected the WebSocket transport", addr, ct)
		} else if w.Config.Address != addr {
			res.Fail("ws-address-changed", "WebSocket transport address %q, given %q", w.Config.Address, addr)
		}
		if w2, ok := nct.(*xmpp.WebsocketTransport); !ok {
			res.Fail("ws-not-selected", "NewClient with Address %q uses %T, expected the WebSocket transport", addr, nct)
		} else if w2.Config.Address != addr {
			res.Fail("ws-address-changed", "NewClient: WebSocket transport address %q, given %q", w2.Config.Address, addr)
		}
		if kerr == nil || !errors.Is(kerr, xmpp.ErrTransportProtocolNotSupported) || kt != nil {
			res.Fail("ws-component-accepted", "NewComponentTransport(%q) = %T, %v; expected ErrTransportProtocolNotSupported", addr, kt, kerr)
		}
		return res
	}
	wantPort := "5222"
	if c.HasPort {
		wantPort = strconv.Itoa(c.Port)
	}
	judge := func(who string, tr xmpp.Transport) {
		x, ok := tr.(*xmpp.XMPPTransport)
		if !ok || x == nil {
			res.Fail("tcp-not-selected", "%s(%q) returned %T, expected the XMPP (TCP) transport", who, addr, tr)
			return
		}
		got := x.Config.Address
		host, port, err := net.SplitHostPort(got)
		if err != nil {
			res.Fail("not-host-port", "%s(%q) dials %q, which is not a valid host:port: %v", who, addr, got, err)
			return
		}
		if host != c.Host {
			res.Fail("host-changed", "%s(%q) dials %q: host %q, expected %q", who, addr, got, host, c.Host)
		}
		if port != wantPort {
			res.Fail("port-wrong", "%s(%q) dials %q: port %q, expected %q", who, addr, got, port, wantPort)
		}
	}
	judge("NewClientTransport", ct)
	judge("NewClient", nct)
	if kerr != nil {
		res.Fail("component-refused", "NewComponentTransport(%q) failed: %v", addr, kerr)
	} else {
		judge("NewComponentTransport", kt)
	}
	return res
}

var c20 = vh.Define(&vh.Def[c20Case]{
	Property: "C20", Name: "address",
	Rule: "hosts = DNS names (1-4 labels, digits, hyphens, optional trailing dot), IPv4 literals, IPv6 literals in 8 shapes (::, ::1, full, compressed with 0-7 groups on either side of the '::' (up to eight colons), short leading/trailing compression, IPv4-mapped, zoned; either case) bracketed or bare, x port absent / present (0-65535, weighted to well-known values), and ws:// / wss:// URLs with optional port and path, in half of them with a host part other than a DNS name (IPv4, IPv6 bracketed / bare / zoned, and 15 shapes a strict URL parser refuses: the scheme alone selects the transport); bare IPv6 followed by :port is excluded and counted; oracle = net.SplitHostPort of the address the transport dials (as returned by NewClientTransport / NewComponentTransport, and as built into a Client by NewClient), host unchanged, port kept or 5222, transport type per scheme, components refuse ws/wss with ErrTransportProtocolNotSupported; non-trivial = IPv6 host or explicit port",
	Quick: 100000, Thorough: 4000000,
	Gen: genC20, Run: runC20,
})

func TestC20_address(t *testing.T) { c20.Check(t) }
func TestC20_Regress(t *testing.T) { vh.Regress(t, "C20") }
