package harness

// C08 (failed writes) — a stanza far larger than anything the kernel can buffer is being written when the server
// resets the connection: the write cannot have completed, so the call must report an error. Unlike the stub-transport
// fault injection of C08_writefault this goes through the real TCP transport, its TLS layer and its traffic logger.

import (
	"fmt"
	"os"
	"strings"
	"testing"
	"time"

	xmpp "gosrc.io/xmpp"
	"gosrc.io/xmpp/stanza"
	"pgregory.net/rapid"
	"verifharness/peer"
	"verifharness/vh"
)

type c08BigCase struct {
	Entity string `json:"entity"` // client component
	Kind   string `json:"kind"`   // send sendraw
	SizeMB int    `json:"size_mb"`
	ReadKB int    `json:"read_kb"` // what the server reads of it before the reset
	Logger bool   `json:"logger"`
	TLS    bool   `json:"tls"`
	SM     bool   `json:"sm"`
}

func genC08Big(t *rapid.T) c08BigCase {
	c := c08BigCase{
		Entity: rapid.SampledFrom([]string{"client", "client", "component"}).Draw(t, "entity"),
		Kind:   rapid.SampledFrom([]string{"send", "sendraw"}).Draw(t, "kind"),
		SizeMB: rapid.IntRange(24, 40).Draw(t, "sizeMB"),
		ReadKB: rapid.SampledFrom([]int{0, 1, 64, 256, 1024}).Draw(t, "readKB"),
		Logger: rapid.Bool().Draw(t, "logger"),
	}
	if c.Entity == "client" {
		c.TLS = rapid.IntRange(0, 2).Draw(t, "tls") == 0
		c.SM = rapid.Bool().Draw(t, "sm")
	} else {
		c.Logger = false // a component's transport is created inside Connect: a logger cannot be attached before the stream starts
	}
	return c
}

func runC08Big(c c08BigCase) vh.Result {
	var res vh.Result
	res.NonTrivial = true
	res.Label(c.Entity + "-" + c.Kind)
	if c.Logger {
		res.Label("logger")
	}
	if c.TLS {
		res.Label("tls")
	}
	ready := make(chan bool, 1)
	srv, err := peer.Listen(func(pc *peer.Conn) {
		if c.Entity == "component" {
			if ev := pc.ExpectOpen(10 * time.Second); ev.Kind != "open" {
				ready <- false
				return
			}
			pc.Send("<?xml version='1.0'?><stream:stream xmlns='jabber:component:accept' xmlns:stream='http://etherx.jabber.org/streams' from='comp.localhost' id='sid'>")
			if ev := pc.NextElem(10 * time.Second); ev.Kind != "elem" {
				ready <- false
				return
			}
			pc.Send("<handshake/>")
		} else {
			out := pc.Negotiate(&peer.Script{Mechs: []string{"PLAIN"}, OfferSM: c.SM, ExpectEnable: c.SM, OfferTLS: c.TLS, Cert: "valid"}, 10*time.Second)
			if !out.Established {
				ready <- false
				return
			}
		}
		ready <- true
		// read a little of what comes (raw), then reset the connection under the writer
		pc.ReadRaw(c.ReadKB<<10, 5*time.Second)
		time.Sleep(20 * time.Millisecond)
		pc.Reset()
	})
	if err != nil {
		res.Fail("harness", "listen: %v", err)
		return res
	}
	defer srv.Close()
	var logFile *os.File
	if c.Logger {
		if f, err := os.CreateTemp("", "verif-c08big-*.log"); err == nil {
			logFile = f
			defer os.Remove(f.Name())
			defer f.Close()
		}
	}
	var sender xmpp.Sender
	var disconnect func() error
	if c.Entity == "component" {
		opts := xmpp.ComponentOptions{
			TransportConfiguration: xmpp.TransportConfiguration{Address: srv.Addr, Domain: "comp.localhost", ConnectTimeout: 1},
			Domain:                 "comp.localhost", Secret: "s"}
		comp, err := xmpp.NewComponent(opts, xmpp.NewRouter(), func(error) {})
		if err != nil {
			res.Fail("harness", "NewComponent: %v", err)
			return res
		}
		if err := comp.Connect(); err != nil {
			res.Fail("harness-connect", "Connect: %v", err)
			return res
		}
		sender, disconnect = comp, comp.Disconnect
	} else {
		cl, _, _, err := newTestClientCfg(srv.Addr, clientOpt{Insecure: !c.TLS, SM: c.SM})
		if err != nil {
			res.Fail("harness", "NewClient: %v", err)
			return res
		}
		if logFile != nil {
			xmpp.VerifGetTransport(cl).LogTraffic(logFile)
		}
		if err := cl.Connect(); err != nil {
			res.Fail("harness-connect", "Connect: %v", err)
			return res
		}
		sender, disconnect = cl, cl.Disconnect
	}
	defer func() { go func() { _ = disconnect() }() }()
	select {
	case ok := <-ready:
		if !ok {
			res.Fail("harness-not-established", "session not established")
			return res
		}
	case <-time.After(10 * time.Second):
		res.Fail("harness", "peer not ready")
		return res
	}
	body := strings.Repeat("x", c.SizeMB<<20)
	done := make(chan error, 1)
	go func() {
		switch c.Kind {
		case "send":
			m := stanza.NewMessage(stanza.Attrs{To: "a@localhost", Id: "big"})
			m.Body = body
			done <- sender.Send(m)
		default:
			done <- sender.SendRaw("<message to='a@localhost' id='big'><body>" + body + "</body></message>")
		}
	}()
	desc := fmt.Sprintf("%+v", c)
	select {
	case err := <-done:
		if err == nil {
			res.Fail("failed-write-not-reported", "%s: the server read at most %d KB of a %d MB stanza and reset the connection, yet the call returned nil", desc, c.ReadKB, c.SizeMB)
		}
	case <-time.After(vh.Margin(20 * time.Second)):
		res.Fail("t/send-hangs-on-reset", "%s: the call did not return after the connection was reset", desc)
	}
	return res
}

var c08big = vh.Define(&vh.Def[c08BigCase]{
	Property: "C08", Name: "bigwrite",
	Rule: "one Send / SendRaw of a 24-40 MB message (more than the kernel's socket buffers of both ends can hold, so the write is still in progress) by a client (plain or STARTTLS, SM on/off, traffic logger on/off) or a component over real TCP, while the scripted server reads 0 KB - 1 MB of it and then resets the connection; oracle: the call returns an error (and returns at all); non-trivial = every case",
	Quick: 32, Thorough: 400, Journal: true,
	Gen: genC08Big, Run: runC08Big,
})

func TestC08_bigwrite(t *testing.T) { c08big.Check(t) }
