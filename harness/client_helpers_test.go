package harness

import (
	"context"
	"crypto/tls"
	"fmt"
	"strings"
	"sync"
	"time"

	xmpp "gosrc.io/xmpp"
	"gosrc.io/xmpp/stanza"
	"verifharness/peer"
)

// recorder collects everything a client reports to the application.
type recorder struct {
	mu     sync.Mutex
	states []xmpp.ConnState
	events []xmpp.Event
	errs   []string
	routed []stanza.Packet
	notify chan struct{}
	// hook, when set, runs in the routing goroutine after the packet was recorded (a handler that takes its time)
	hook func(stanza.Packet)
	// evHook, when set, runs in the goroutine that delivers the event, after the event was recorded
	evHook func(xmpp.Event)
}

func newRecorder() *recorder { return &recorder{notify: make(chan struct{}, 1)} }

func (r *recorder) ping() {
	select {
	case r.notify <- struct{}{}:
	default:
	}
}

func (r *recorder) onEvent(e xmpp.Event) error {
	r.mu.Lock()
	r.states = append(r.states, xmpp.VerifEventState(e))
	r.events = append(r.events, e)
	r.mu.Unlock()
	r.ping()
	if r.evHook != nil {
		r.evHook(e)
	}
	return nil
}

func (r *recorder) onError(err error) {
	r.mu.Lock()
	r.errs = append(r.errs, fmt.Sprint(err))
	r.mu.Unlock()
	r.ping()
}

func (r *recorder) onPacket(s xmpp.Sender, p stanza.Packet) {
	r.mu.Lock()
	r.routed = append(r.routed, p)
	hook := r.hook
	r.mu.Unlock()
	r.ping()
	if hook != nil {
		hook(p)
	}
}

func (r *recorder) snapshot() (states []xmpp.ConnState, errs []string, routed []stanza.Packet) {
	r.mu.Lock()
	defer r.mu.Unlock()
	return append([]xmpp.ConnState(nil), r.states...), append([]string(nil), r.errs...), append([]stanza.Packet(nil), r.routed...)
}

func (r *recorder) count(st xmpp.ConnState) int {
	r.mu.Lock()
	defer r.mu.Unlock()
	n := 0
	for _, s := range r.states {
		if s == st {
			n++
		}
	}
	return n
}

// waitFor polls cond until it holds or the time-out expires.
func waitFor(timeout time.Duration, cond func() bool) bool {
	deadline := time.Now().Add(timeout)
	for {
		if cond() {
			return true
		}
		if time.Now().After(deadline) {
			return false
		}
		time.Sleep(2 * time.Millisecond)
	}
}

type clientOpt struct {
	Jid         string
	Secret      string
	Token       bool
	Insecure    bool
	SM          bool
	NoTLSConfig bool
	SkipVerify  bool
	ServerName  string
	Keepalive   time.Duration
	Address     string
	// Sibling: another Client is built first on the very same *tls.Config (never connected), with Insecure on
	// ("insecure") or off ("strict"): what one client does to the configuration must not leak into the other
	Sibling string
	// Echo: instead of the silent catch-all route the application answers every message with a message and has no
	// route for IQs (so the router's own feature-not-implemented reply goes out): whatever reaches the router is
	// answered on the wire
	Echo bool
}

func newTestClient(addr string, o clientOpt) (*xmpp.Client, *recorder, error) {
	c, rec, _, err := newTestClientCfg(addr, o)
	return c, rec, err
}

func newTestClientCfg(addr string, o clientOpt) (*xmpp.Client, *recorder, *xmpp.Config, error) {
	rec := newRecorder()
	router := xmpp.NewRouter()
	if o.Echo {
		router.NewRoute().Packet("message").HandlerFunc(func(s xmpp.Sender, p stanza.Packet) {
			rec.onPacket(s, p)
			m := stanza.NewMessage(stanza.Attrs{To: "a@localhost/r", Id: "echo"})
			m.Body = "echo"
			_ = s.Send(m)
		})
	} else {
		router.NewRoute().HandlerFunc(rec.onPacket)
	}
	jid := o.Jid
	if jid == "" {
		jid = "user@localhost/res"
	}
	secret := o.Secret
	if secret == "" {
		secret = "secret"
	}
	cred := xmpp.Password(secret)
	if o.Token {
		cred = xmpp.OAuthToken(secret)
	}
	cfg := &xmpp.Config{
		TransportConfiguration: xmpp.TransportConfiguration{Address: addr, Domain: "localhost"},
		Jid:                    jid,
		Credential:             cred,
		Insecure:               o.Insecure,
		ConnectTimeout:         1,
		KeepaliveInterval:      o.Keepalive,
		StreamManagementEnable: o.SM,
	}
	if cfg.KeepaliveInterval == 0 {
		cfg.KeepaliveInterval = time.Hour
	}
	if !o.NoTLSConfig {
		cfg.TLSConfig = &tls.Config{RootCAs: peer.CAPool(), InsecureSkipVerify: o.SkipVerify, ServerName: o.ServerName}
	}
	if o.SM {
		xmpp.VerifSetResume(cfg, true)
	}
	if o.Sibling != "" && cfg.TLSConfig != nil {
		sib := *cfg
		sib.Insecure = o.Sibling == "insecure"
		if _, err := xmpp.NewClient(&sib, xmpp.NewRouter(), func(error) {}); err != nil {
			return nil, rec, cfg, err
		}
	}
	c, err := xmpp.NewClient(cfg, router, rec.onError)
	if err != nil {
		return nil, rec, cfg, err
	}
	c.SetHandler(rec.onEvent)
	return c, rec, cfg, nil
}

func ctxShort() context.Context {
	ctx, cancel := context.WithTimeout(context.Background(), 50*time.Millisecond)
	_ = cancel
	return ctx
}

// inbound element builders shared by the session checks
func inboundStanza(kind, id string, size int) string {
	pad := ""
	if size > 0 {
		pad = strings.Repeat("x", size)
	}
	switch kind {
	case "m":
		return "<message from='a@localhost/r' to='user@localhost/res' id='" + id + "' type='chat'><body>hi " + pad + "</body></message>"
	case "p":
		return "<presence from='a@localhost/r' id='" + id + "'><status>s" + pad + "</status></presence>"
	case "iq-result":
		return "<iq from='localhost' id='" + id + "' type='result'><query xmlns='jabber:iq:version'><name>n" + pad + "</name></query></iq>"
	case "iq-error":
		return "<iq from='localhost' id='" + id + "' type='error'><error type='cancel'><item-not-found xmlns='urn:ietf:params:xml:ns:xmpp-stanzas'/></error></iq>"
	case "iq-get":
		return "<iq from='a@localhost/r' id='" + id + "' type='get'><query xmlns='jabber:iq:version'/></iq>"
	case "iq-set":
		return "<iq from='a@localhost/r' id='" + id + "' type='set'><query xmlns='jabber:iq:roster'><item jid='b@c'>" + pad + "</item></query></iq>"
	}
	return ""
}

func packetID(p stanza.Packet) (kind, id string) {
	switch v := p.(type) {
	case stanza.Message:
		return "message", v.Id
	case stanza.Presence:
		return "presence", v.Id
	case *stanza.IQ:
		return "iq", v.Id
	}
	return "", ""
}
