package harness

// C19 — reconnection back-off bounds. Oracle: exact reference computed with
// math/big.

import (
	"math/big"
	"testing"
	"time"

	xmpp "gosrc.io/xmpp"
	"pgregory.net/rapid"
	"verifharness/vh"
)

type c19Case struct {
	Base     int   `json:"base"`
	Factor   int   `json:"factor"`
	Cap      int   `json:"cap"`
	Jitter   bool  `json:"jitter"`
	Attempts []int `json:"attempts"` // per-attempt queries
	// Seq is a sequence of stateful calls: n>0 = call duration() n times, 0 = reset
	Seq []int `json:"seq"`
}

const c19MaxMs = int(int64(1<<63-1) / int64(time.Millisecond)) // largest ms count that fits a Duration

func c19Int(t *rapid.T, label string, max int) int {
	switch rapid.IntRange(0, 5).Draw(t, label+"Class") {
	case 0:
		return 0 // "use the default"
	case 1:
		return rapid.IntRange(1, 3).Draw(t, label)
	case 2:
		return rapid.IntRange(1, 1000).Draw(t, label)
	case 3:
		return max - rapid.IntRange(0, 3).Draw(t, label)
	default:
		return rapid.IntRange(1, max).Draw(t, label)
	}
}

func genC19(t *rapid.T) c19Case {
	c := c19Case{
		Base:   c19Int(t, "base", c19MaxMs),
		Factor: c19Int(t, "factor", 1<<31),
		Cap:    c19Int(t, "cap", c19MaxMs),
		Jitter: rapid.Bool().Draw(t, "jitter"),
	}
	na := rapid.IntRange(1, 6).Draw(t, "nAttempts")
	for i := 0; i < na; i++ {
		switch rapid.IntRange(0, 3).Draw(t, "aClass") {
		case 0:
			c.Attempts = append(c.Attempts, rapid.IntRange(0, 20).Draw(t, "attempt"))
		case 1:
			c.Attempts = append(c.Attempts, rapid.IntRange(0, 2000).Draw(t, "attempt"))
		default:
			c.Attempts = append(c.Attempts, rapid.IntRange(0, 1000000).Draw(t, "attempt"))
		}
	}
	ns := rapid.IntRange(0, 4).Draw(t, "nSeq")
	for i := 0; i < ns; i++ {
		if rapid.IntRange(0, 3).Draw(t, "isReset") == 0 {
			c.Seq = append(c.Seq, 0)
		} else {
			c.Seq = append(c.Seq, rapid.IntRange(1, 40).Draw(t, "calls"))
		}
	}
	return c
}

// refBackoffMs returns min(cap, base*factor^n) in ms, exactly.
func refBackoffMs(base, factor, cap, n int) *big.Int {
	if base == 0 {
		base = 20
	}
	if factor == 0 {
		factor = 2
	}
	if cap == 0 {
		cap = 180000
	}
	c := big.NewInt(int64(cap))
	v := big.NewInt(int64(base))
	if factor == 1 || n == 0 {
		if v.Cmp(c) > 0 {
			return c
		}
		return v
	}
	f := big.NewInt(int64(factor))
	// stop multiplying once above the cap
	for i := 0; i < n; i++ {
		v.Mul(v, f)
		if v.Cmp(c) >= 0 {
			return c
		}
	}
	return v
}

func c19Judge(res *vh.Result, c c19Case, what string, n int, d time.Duration, prev *time.Duration) {
	want := refBackoffMs(c.Base, c.Factor, c.Cap, n)
	capv := c.Cap
	if capv == 0 {
		capv = 180000
	}
	capD := time.Duration(capv) * time.Millisecond
	if d < 0 {
		res.Fail("negative", "%s attempt %d: negative delay %v (%+v)", what, n, d, c)
		return
	}
	if d > capD {
		res.Fail("above-cap", "%s attempt %d: delay %v above cap %v (%+v)", what, n, d, capD, c)
		return
	}
	wantD := time.Duration(want.Int64()) * time.Millisecond
	if c.Jitter {
		if d > wantD {
			res.Fail("jitter-above", "%s attempt %d: jittered delay %v above min(cap, base*factor^n) = %v (%+v)", what, n, d, wantD, c)
		}
		return
	}
	if d != wantD {
		// float64 arithmetic is exact below 2^53; above, allow a relative error of 1e-12
		ok := false
		if want.BitLen() > 53 {
			diff := new(big.Int).Sub(big.NewInt(int64(d/time.Millisecond)), want)
			diff.Abs(diff)
			tol := new(big.Int).Rsh(want, 39) // ~1.8e-12 relative
			ok = diff.Cmp(tol) <= 0
		}
		if !ok {
			key := "wrong-value"
			if what == "durationForAttempt" {
				key = "wrong-value-per-attempt"
			}
			res.Fail(key, "%s attempt %d: delay %v, expected min(cap, base*factor^n) = %v (%+v)", what, n, d, wantD, c)
		}
	}
	if prev != nil {
		if d < *prev {
			res.Fail("decreasing", "%s attempt %d: delay %v smaller than the previous attempt's %v (%+v)", what, n, d, *prev, c)
		}
		*prev = d
	}
}

func runC19(c c19Case) vh.Result {
	var res vh.Result
	// per-attempt queries on a fresh structure each (stateless use)
	for _, n := range c.Attempts {
		b := xmpp.NewVerifBackoff(!c.Jitter, c.Base, c.Factor, c.Cap)
		d := b.DurationForAttempt(n)
		c19Judge(&res, c, "durationForAttempt", n, d, nil)
		if n >= 1 {
			res.NonTrivial = true
		}
	}
	// per-attempt queries on a structure that has already been used statefully
	if len(c.Attempts) > 0 {
		b := xmpp.NewVerifBackoff(!c.Jitter, c.Base, c.Factor, c.Cap)
		b.Duration()
		b.Duration()
		b.Duration()
		n := c.Attempts[0]
		c19Judge(&res, c, "durationForAttempt", n, b.DurationForAttempt(n), nil)
	}
	// stateful sequences
	b := xmpp.NewVerifBackoff(!c.Jitter, c.Base, c.Factor, c.Cap)
	attempt := 0
	var prev time.Duration
	for _, s := range c.Seq {
		if s == 0 {
			b.Reset()
			attempt = 0
			prev = 0
			res.Label("reset")
			continue
		}
		for i := 0; i < s; i++ {
			d := b.Duration()
			var pp *time.Duration
			if !c.Jitter {
				pp = &prev
			}
			c19Judge(&res, c, "duration", attempt, d, pp)
			attempt++
		}
		res.NonTrivial = true
	}
	if c.Jitter {
		res.Label("jitter")
	} else {
		res.Label("no-jitter")
	}
	for _, n := range c.Attempts {
		if n > 2000 {
			res.Label("overflowing-attempt")
			break
		}
	}
	return res
}

var c19 = vh.Define(&vh.Def[c19Case]{
	Property: "C19", Name: "backoff",
	Rule: "base, factor, cap drawn from {0 = default, tiny, small, near the largest value whose ms duration fits time.Duration, anywhere in range}; per-attempt queries n in 0..10^6 (far beyond float64 overflow of factor^n) on fresh and on used structures, and stateful duration()/reset() sequences; with and without jitter; oracle = exact min(cap, base*factor^n) with math/big (relative tolerance 2^-39 above 2^53 only), bounds 0 <= d <= cap, monotonicity without jitter; non-trivial = an attempt number >= 1 or a stateful sequence",
	Quick: 100000, Thorough: 4000000,
	Gen: genC19, Run: runC19,
})

func TestC19_backoff(t *testing.T) { c19.Check(t) }
func TestC19_Regress(t *testing.T) { vh.Regress(t, "C19") }
