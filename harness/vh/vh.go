// Package vh is the small runtime shared by every property check of the
// verification harness: case (de)serialisation, statistics / evidence
// recording, known-finding classification, failure files and the plain replay
// tier. All randomness lives in rapid generators; nothing here draws random
// numbers or reads the clock for anything but wall-time reporting.
package vh

import (
	"bufio"
	"context"
	"crypto/sha256"
	"encoding/binary"
	"encoding/json"
	"flag"
	"fmt"
	"hash/fnv"
	"os"
	"os/exec"
	"path/filepath"
	"runtime/debug"
	"sort"
	"strconv"
	"strings"
	"sync"
	"testing"
	"time"

	"pgregory.net/rapid"
)

// Violation is one way in which a case broke the property. Key is the class
// key used by the known-findings protocol (KNOWN_FINDINGS.txt).
type Violation struct {
	Key string `json:"key"`
	Msg string `json:"msg"`
}

func V(key, format string, a ...interface{}) Violation {
	return Violation{Key: key, Msg: fmt.Sprintf(format, a...)}
}

// Result is what running one case yields.
type Result struct {
	Violations []Violation
	NonTrivial bool
	Labels     []string
	// Excluded marks a case that falls into an excluded part of the domain
	// (counted, never judged).
	Excluded bool
}

func (r *Result) Fail(key, format string, a ...interface{}) {
	r.Violations = append(r.Violations, V(key, format, a...))
}
func (r *Result) Label(l string) { r.Labels = append(r.Labels, l) }

// ---------------------------------------------------------------------------
// environment

type env struct {
	tier    string
	seed    uint64
	shard   int
	nshards int
	out     string
	root    string
	scale   float64
}

var (
	envOnce sync.Once
	theEnv  env
)

func getenv() env {
	envOnce.Do(func() {
		e := env{tier: "quick", seed: 1, nshards: 1, scale: 1}
		if v := os.Getenv("VERIF_TIER"); v != "" {
			e.tier = v
		}
		if v := os.Getenv("VERIF_SEED"); v != "" {
			if n, err := strconv.ParseInt(v, 10, 64); err == nil {
				e.seed = uint64(n)
			}
		}
		if v := os.Getenv("VERIF_SHARD"); v != "" {
			e.shard, _ = strconv.Atoi(v)
		}
		if v := os.Getenv("VERIF_NSHARDS"); v != "" {
			e.nshards, _ = strconv.Atoi(v)
			if e.nshards < 1 {
				e.nshards = 1
			}
		}
		if v := os.Getenv("VERIF_SCALE"); v != "" {
			if f, err := strconv.ParseFloat(v, 64); err == nil && f > 0 {
				e.scale = f
			}
		}
		e.out = os.Getenv("VERIF_OUT")
		if e.out == "" {
			e.out = os.TempDir()
		}
		e.root = os.Getenv("VERIF_ROOT")
		if e.root == "" {
			e.root = "/verif"
		}
		theEnv = e
	})
	return theEnv
}

func Tier() string      { return getenv().tier }
func Seed() uint64      { return getenv().seed }
func Thorough() bool    { return getenv().tier == "thorough" }
func Root() string      { return getenv().root }
func OutDir() string    { return getenv().out }
func Shard() (int, int) { e := getenv(); return e.shard, e.nshards }

// ---------------------------------------------------------------------------
// known findings

type knownEntry struct {
	Property string
	Key      string
	Desc     string
}

var (
	knownOnce sync.Once
	known     map[string]knownEntry // "Cxx|key" -> entry
)

func loadKnown() {
	knownOnce.Do(func() {
		known = map[string]knownEntry{}
		f, err := os.Open(filepath.Join(Root(), "KNOWN_FINDINGS.txt"))
		if err != nil {
			return
		}
		defer f.Close()
		sc := bufio.NewScanner(f)
		for sc.Scan() {
			line := strings.TrimSpace(sc.Text())
			if !strings.HasPrefix(line, "known:") {
				continue
			}
			fs := strings.Fields(strings.TrimPrefix(line, "known:"))
			var e knownEntry
			var rest []string
			for _, x := range fs {
				switch {
				case strings.HasPrefix(x, "property=") && e.Property == "":
					e.Property = strings.TrimPrefix(x, "property=")
				case strings.HasPrefix(x, "key=") && e.Key == "":
					e.Key = strings.TrimPrefix(x, "key=")
				default:
					rest = append(rest, x)
				}
			}
			e.Desc = strings.Join(rest, " ")
			if e.Property != "" && e.Key != "" {
				known[e.Property+"|"+e.Key] = e
			}
		}
	})
}

// IsKnown reports whether the class key is listed as a known finding.
func IsKnown(property, key string) bool {
	loadKnown()
	_, ok := known[property+"|"+key]
	return ok
}

// ---------------------------------------------------------------------------
// statistics

type checkStats struct {
	Property    string           `json:"property"`
	Check       string           `json:"check"`
	Rule        string           `json:"rule"`
	Evaluations int              `json:"evaluations"`
	NonTrivial  int              `json:"nontrivial"`
	Excluded    int              `json:"excluded"`
	Labels      map[string]int   `json:"labels"`
	Samples     []interface{}    `json:"samples"`
	KnownHits   map[string]int   `json:"known_hits"`
	Hashes      []uint64         `json:"hashes"`
	HashCapHit  bool             `json:"hash_cap_hit"`
	Exhaustive  bool             `json:"exhaustive,omitempty"`
	Extra       map[string]int64 `json:"extra,omitempty"`
	seen        map[uint64]struct{}
	labelSample map[string]int
}

const hashCap = 200000
const maxSamples = 6

var (
	statsMu sync.Mutex
	stats   = map[string]*checkStats{}
)

func statsFor(property, check, rule string) *checkStats {
	s := stats[check]
	if s == nil {
		s = &checkStats{Property: property, Check: check, Rule: rule, Labels: map[string]int{},
			KnownHits: map[string]int{}, seen: map[uint64]struct{}{}, labelSample: map[string]int{}, Extra: map[string]int64{}}
		stats[check] = s
	}
	return s
}

func caseHash(b []byte) uint64 {
	h := sha256.Sum256(b)
	return binary.BigEndian.Uint64(h[:8])
}

func record(property, check, rule string, caseJSON []byte, res *Result) {
	statsMu.Lock()
	defer statsMu.Unlock()
	s := statsFor(property, check, rule)
	s.Evaluations++
	if res.Excluded {
		s.Excluded++
	}
	for _, l := range res.Labels {
		s.Labels[l]++
	}
	if res.NonTrivial && !res.Excluded {
		s.NonTrivial++
		h := caseHash(caseJSON)
		if _, ok := s.seen[h]; !ok {
			if len(s.seen) < hashCap {
				s.seen[h] = struct{}{}
			} else {
				s.HashCapHit = true
			}
			// keep a few samples, preferring variety of labels
			take := len(s.Samples) < 2
			if !take && len(s.Samples) < maxSamples {
				for _, l := range res.Labels {
					if s.labelSample[l] == 0 {
						take = true
					}
				}
			}
			if take && len(caseJSON) < 6000 {
				for _, l := range res.Labels {
					s.labelSample[l]++
				}
				var v interface{}
				if json.Unmarshal(caseJSON, &v) == nil {
					s.Samples = append(s.Samples, v)
				}
			}
		}
	}
}

// Extra adds to a free-form counter that ends up in the evidence file.
func Extra(property, check, name string, n int64) {
	statsMu.Lock()
	defer statsMu.Unlock()
	s := statsFor(property, check, "")
	s.Extra[name] += n
}

func recordKnown(property, check, key string) {
	statsMu.Lock()
	defer statsMu.Unlock()
	s := statsFor(property, check, "")
	s.KnownHits[key]++
}

// MarkExhaustive notes that a check enumerated its finite space completely.
func MarkExhaustive(property, check string) {
	statsMu.Lock()
	defer statsMu.Unlock()
	statsFor(property, check, "").Exhaustive = true
}

// Flush writes the per-process statistics file. Called from TestMain.
func Flush() {
	statsMu.Lock()
	defer statsMu.Unlock()
	e := getenv()
	var all []*checkStats
	for _, s := range stats {
		s.Hashes = s.Hashes[:0]
		for h := range s.seen {
			s.Hashes = append(s.Hashes, h)
		}
		sort.Slice(s.Hashes, func(i, j int) bool { return s.Hashes[i] < s.Hashes[j] })
		all = append(all, s)
	}
	sort.Slice(all, func(i, j int) bool { return all[i].Check < all[j].Check })
	b, _ := json.Marshal(all)
	_ = os.MkdirAll(e.out, 0o755)
	_ = os.WriteFile(filepath.Join(e.out, fmt.Sprintf("stats-%d-%d.json", e.shard, os.Getpid())), b, 0o644)
}

// ---------------------------------------------------------------------------
// checks

// Def is one generated check of a property.
type Def[C any] struct {
	Property string
	Name     string // test name suffix; the full check name is Property_Name
	Rule     string
	Quick    int // rapid cases per run, whole run (divided among shards)
	Thorough int
	Journal  bool // write the case to current-<pid>.json before running it (crash-prone checks)
	Isolate  bool // run every case in a child process (cases that may kill the process)
	// ChildTimeout bounds one isolated case (default 120 s); a time-out is reported as class "child-timeout"
	ChildTimeout time.Duration
	// CrashClass, when set, is appended to the class key of a crash of an isolated case
	CrashClass func(c C) string
	Gen      func(t *rapid.T) C
	Run      func(c C) Result
}

type replayer interface {
	property() string
	check() string
	replay(raw json.RawMessage) (Result, error)
}

var registry = map[string]replayer{}

func (d *Def[C]) property() string { return d.Property }
func (d *Def[C]) check() string    { return d.Property + "_" + d.Name }
func (d *Def[C]) replay(raw json.RawMessage) (Result, error) {
	var c C
	if err := json.Unmarshal(raw, &c); err != nil {
		return Result{}, err
	}
	return d.confirm(c, d.safeRun(c)), nil
}

// safeRun converts a panic on the calling goroutine into a violation, so that
// the case is saved like any other failure.
func (d *Def[C]) safeRun(c C) (res Result) {
	if d.Isolate && os.Getenv("VERIF_CHILD_RESULT") == "" {
		return d.runInChild(c)
	}
	defer func() {
		if r := recover(); r != nil {
			res.NonTrivial = true
			res.Violations = append(res.Violations, V("panic", "panic: %v\n%s", r, debug.Stack()))
		}
	}()
	return d.Run(c)
}

// runInChild executes the case in a fresh process (the test binary itself, in
// replay mode) so that a fatal error in the library cannot take the harness
// down; a crash becomes a violation whose class key names the crash kind.
func (d *Def[C]) runInChild(c C) (res Result) {
	e := getenv()
	b, _ := json.Marshal(c)
	base := filepath.Join(e.out, fmt.Sprintf("child-%d-%d", e.shard, os.Getpid()))
	casePath, resPath := base+"-case.json", base+"-result.json"
	writeCaseFile(casePath, d.Property, d.check(), b, nil)
	_ = os.Remove(resPath)
	timeout := d.ChildTimeout
	if timeout == 0 {
		timeout = 120 * time.Second
	}
	ctx, cancel := context.WithTimeout(context.Background(), timeout)
	defer cancel()
	cmd := exec.CommandContext(ctx, os.Args[0], "-test.run", "^TestReplay$", "-test.timeout", "0")
	cmd.Env = append(os.Environ(), "VERIF_REPLAY="+casePath, "VERIF_CHILD_RESULT="+resPath)
	out, err := cmd.CombinedOutput()
	if rb, rerr := os.ReadFile(resPath); rerr == nil {
		var r Result
		if json.Unmarshal(rb, &r) == nil {
			return r
		}
	}
	res.NonTrivial = true
	txt := string(out)
	suffix := ""
	if d.CrashClass != nil {
		suffix = ":" + d.CrashClass(c)
	}
	switch {
	case ctx.Err() != nil:
		res.Violations = append(res.Violations, V("child-timeout"+suffix, "case did not finish within %v in a child process", timeout))
	case strings.Contains(txt, "stack overflow"):
		i := strings.Index(txt, "stack overflow")
		j := i + 1800
		if j > len(txt) {
			j = len(txt)
		}
		if i > 200 {
			i -= 200
		} else {
			i = 0
		}
		res.Violations = append(res.Violations, V("crash-stack-overflow"+suffix, "child process died with a stack overflow: %s", txt[i:j]))
	case strings.Contains(txt, "panic:") || strings.Contains(txt, "fatal error:"):
		res.Violations = append(res.Violations, V("crash-panic"+suffix, "child process died: %s", tail(txt, 3000)))
	default:
		res.Violations = append(res.Violations, V("harness-child", "child process failed without a result (%v): %s", err, tail(txt, 1500)))
	}
	return res
}

func tail(s string, n int) string {
	if len(s) > n {
		return "..." + s[len(s)-n:]
	}
	return s
}

// Define registers a check so that the replay / regress tiers can find it.
func Define[C any](d *Def[C]) *Def[C] {
	registry[d.check()] = d
	return d
}

type caseFile struct {
	Property   string          `json:"property"`
	Check      string          `json:"check"`
	Case       json.RawMessage `json:"case"`
	Violations []Violation     `json:"violations,omitempty"`
	Note       string          `json:"note,omitempty"`
}

func (d *Def[C]) count() int {
	e := getenv()
	n := d.Quick
	if e.tier == "thorough" {
		n = d.Thorough
	}
	n = int(float64(n) * e.scale)
	n = (n + e.nshards - 1) / e.nshards
	if n < 1 {
		n = 1
	}
	return n
}

func seedFor(check string) uint64 {
	e := getenv()
	h := fnv.New64a()
	fmt.Fprintf(h, "%s|%d|%d", check, e.seed, e.shard)
	s := h.Sum64()
	if s == 0 {
		s = 0x9e3779b97f4a7c15
	}
	return s
}

// Judge records the case and splits its violations into unknown (returned)
// and known ones (counted).
func (d *Def[C]) judge(c C, res *Result) (caseJSON []byte, unknown []Violation) {
	caseJSON, _ = json.Marshal(c)
	record(d.Property, d.check(), d.Rule, caseJSON, res)
	for _, v := range res.Violations {
		if isHarnessProblem(v) {
			// not a verdict about the library: the run is inconclusive (the driver maps this to exit 2)
			Extra(d.Property, d.check(), "harness_errors", 1)
			harnessErrors = append(harnessErrors, d.check()+": ["+v.Key+"] "+v.Msg)
			continue
		}
		if IsKnown(d.Property, v.Key) {
			recordKnown(d.Property, d.check(), v.Key)
		} else if surveyMode() {
			recordSurvey(d.check(), v, caseJSON)
		} else {
			unknown = append(unknown, v)
		}
	}
	return
}

var harnessErrors []string

// isHarnessProblem: class keys starting with "harness" and anything caused by the machine running out of
// ephemeral ports say nothing about the property.
func isHarnessProblem(v Violation) bool {
	if strings.HasPrefix(v.Key, "harness") {
		return true
	}
	for _, s := range []string{"cannot assign requested address", "address already in use", "too many open files"} {
		if strings.Contains(v.Msg, s) {
			return true
		}
	}
	return false
}

// Survey mode (development aid, VERIF_SURVEY=1): unknown violations are
// tallied per class key with one example each instead of failing the run.
type surveyEntry struct {
	Check   string          `json:"check"`
	Key     string          `json:"key"`
	Count   int             `json:"count"`
	Example string          `json:"example"`
	Case    json.RawMessage `json:"case"`
}

var survey = map[string]*surveyEntry{}

func surveyMode() bool { return os.Getenv("VERIF_SURVEY") == "1" }

func recordSurvey(check string, v Violation, caseJSON []byte) {
	statsMu.Lock()
	defer statsMu.Unlock()
	k := check + "|" + v.Key
	e := survey[k]
	if e == nil {
		e = &surveyEntry{Check: check, Key: v.Key, Example: v.Msg, Case: append([]byte(nil), caseJSON...)}
		survey[k] = e
	} else if len(caseJSON) < len(e.Case) {
		e.Example, e.Case = v.Msg, append([]byte(nil), caseJSON...)
	}
	e.Count++
}

func flushSurvey() {
	if len(survey) == 0 {
		return
	}
	var all []*surveyEntry
	for _, e := range survey {
		all = append(all, e)
	}
	sort.Slice(all, func(i, j int) bool { return all[i].Key < all[j].Key })
	b, _ := json.MarshalIndent(all, "", " ")
	e := getenv()
	_ = os.WriteFile(filepath.Join(e.out, fmt.Sprintf("survey-%d.json", e.shard)), b, 0o644)
}

func (d *Def[C]) failPath() string {
	e := getenv()
	return filepath.Join(e.out, fmt.Sprintf("fail-%s-%d.json", d.check(), e.shard))
}

func writeCaseFile(path, property, check string, caseJSON []byte, vs []Violation) {
	b, _ := json.MarshalIndent(caseFile{Property: property, Check: check, Case: caseJSON, Violations: vs}, "", " ")
	_ = os.MkdirAll(filepath.Dir(path), 0o755)
	_ = os.WriteFile(path, b, 0o644)
}

var marginFactor = 1

// OnMargin is called with the new factor whenever the margin factor changes (lets packages that cannot import vh scale their own waits).
var OnMargin func(factor int)

// Margin scales a wall-clock margin; it is 4x while a timing-dependent violation is being confirmed.
func Margin(d time.Duration) time.Duration { return d * time.Duration(marginFactor) }

func hasTimingKey(vs []Violation) bool {
	for _, v := range vs {
		if strings.HasPrefix(v.Key, "t/") {
			return true
		}
	}
	return false
}

// confirm re-runs a case once with 4x margins when it failed with a
// timing-dependent class ("t/..."); only a second failure is believed.
func (d *Def[C]) confirm(c C, res Result) Result {
	if !hasTimingKey(res.Violations) {
		return res
	}
	marginFactor = 4
	if OnMargin != nil {
		OnMargin(4)
	}
	res2 := d.safeRun(c)
	marginFactor = 1
	if OnMargin != nil {
		OnMargin(1)
	}
	if len(res2.Violations) == 0 {
		Extra(d.Property, d.check(), "timing_retry_passed", 1)
		res2.Labels = append(res2.Labels, "needed-timing-retry")
		return res2
	}
	Extra(d.Property, d.check(), "timing_retry_failed", 1)
	return res2
}

// RunCase runs one concrete case outside rapid (enumerations, directed
// probes); a violation fails the test.
func (d *Def[C]) RunCase(t testing.TB, c C) {
	t.Helper()
	if d.Journal {
		d.journal(c)
	}
	res := d.confirm(c, d.safeRun(c))
	caseJSON, unknown := d.judge(c, &res)
	if len(unknown) > 0 {
		p := filepath.Join(getenv().out, fmt.Sprintf("fail-%s-%d-enum%x.json", d.check(), getenv().shard, caseHash(caseJSON)))
		writeCaseFile(p, d.Property, d.check(), caseJSON, unknown)
		t.Errorf("VIOLATION-CASE %s file=%s: %s", d.check(), p, fmtViolations(unknown))
	}
}

func (d *Def[C]) journal(c C) {
	b, _ := json.Marshal(c)
	e := getenv()
	writeCaseFile(filepath.Join(e.out, fmt.Sprintf("current-%d.json", e.shard)), d.Property, d.check(), b, nil)
}

func fmtViolations(vs []Violation) string {
	var sb strings.Builder
	for i, v := range vs {
		if i > 0 {
			sb.WriteString("; ")
		}
		fmt.Fprintf(&sb, "[%s] %s", v.Key, v.Msg)
	}
	return sb.String()
}

// Check runs the generated check under rapid with a seed and case count that
// are pure functions of (VERIF_SEED, shard, tier).
func (d *Def[C]) Check(t *testing.T) {
	t.Helper()
	_ = flag.Set("rapid.checks", strconv.Itoa(d.count()))
	_ = flag.Set("rapid.seed", strconv.FormatUint(seedFor(d.check()), 10))
	_ = flag.Set("rapid.nofailfile", "true")
	_ = os.Remove(d.failPath())
	Extra(d.Property, d.check(), "requested_cases", int64(d.count()))
	rapid.Check(t, func(rt *rapid.T) {
		c := d.Gen(rt)
		if d.Journal {
			d.journal(c)
		}
		res := d.confirm(c, d.safeRun(c))
		caseJSON, unknown := d.judge(c, &res)
		if len(unknown) > 0 {
			writeCaseFile(d.failPath(), d.Property, d.check(), caseJSON, unknown)
			rt.Fatalf("VIOLATION-CASE %s file=%s: %s", d.check(), d.failPath(), fmtViolations(unknown))
		}
	})
}

// Fuzz returns a native-fuzzing target driven by the same generator.
func (d *Def[C]) Fuzz() func(*testing.T, []byte) {
	return rapid.MakeFuzz(func(rt *rapid.T) {
		c := d.Gen(rt)
		res := d.confirm(c, d.safeRun(c))
		caseJSON, unknown := d.judge(c, &res)
		if len(unknown) > 0 {
			writeCaseFile(d.failPath(), d.Property, d.check(), caseJSON, unknown)
			rt.Fatalf("VIOLATION-CASE %s file=%s: %s", d.check(), d.failPath(), fmtViolations(unknown))
		}
	})
}

// ---------------------------------------------------------------------------
// replay and regress tiers (no rapid involved)

// Replay runs the case file named by VERIF_REPLAY.
func Replay(t *testing.T) {
	path := os.Getenv("VERIF_REPLAY")
	if path == "" {
		t.Skip("VERIF_REPLAY not set")
	}
	vs, check, err := runFile(path, false)
	if err != nil {
		t.Fatalf("replay %s: %v", path, err)
	}
	if len(vs) > 0 {
		t.Fatalf("VIOLATION-CASE %s file=%s: %s", check, path, fmtViolations(vs))
	}
	t.Logf("replay %s: no violation", path)
}

func runFile(path string, countKnown bool) ([]Violation, string, error) {
	b, err := os.ReadFile(path)
	if err != nil {
		return nil, "", err
	}
	var cf caseFile
	if err := json.Unmarshal(b, &cf); err != nil {
		return nil, "", err
	}
	r, ok := registry[cf.Check]
	if !ok {
		return nil, cf.Check, fmt.Errorf("unknown check %q", cf.Check)
	}
	res, err := r.replay(cf.Case)
	if err != nil {
		return nil, cf.Check, err
	}
	if rp := os.Getenv("VERIF_CHILD_RESULT"); rp != "" {
		rb, _ := json.Marshal(res)
		_ = os.WriteFile(rp, rb, 0o644)
		return nil, cf.Check, nil
	}
	record(r.property(), cf.Check, "", cf.Case, &res)
	var unknown []Violation
	for _, v := range res.Violations {
		if IsKnown(r.property(), v.Key) {
			if countKnown {
				recordKnown(r.property(), cf.Check, v.Key)
			}
		} else {
			unknown = append(unknown, v)
		}
	}
	return unknown, cf.Check, nil
}

// Regress runs every saved case under regress/<property>/.
func Regress(t *testing.T, property string) {
	files, _ := filepath.Glob(filepath.Join(Root(), "regress", property, "*.json"))
	sort.Strings(files)
	if sh, n := Shard(); n > 1 && sh != 0 {
		return // the regress tier runs in shard 0 only
	}
	for _, f := range files {
		vs, check, err := runFile(f, true)
		if err != nil {
			t.Errorf("regress %s: %v", f, err)
			continue
		}
		if len(vs) > 0 {
			t.Errorf("VIOLATION-CASE %s file=%s: %s", check, f, fmtViolations(vs))
		}
	}
}

// Main is the TestMain body.
func Main(m *testing.M) {
	code := m.Run()
	if len(harnessErrors) > 0 {
		n := len(harnessErrors)
		if n > 5 {
			harnessErrors = harnessErrors[:5]
		}
		fmt.Printf("HARNESS-ERROR %d cases could not be judged, e.g.:\n%s\n", n, strings.Join(harnessErrors, "\n"))
		if code == 0 {
			code = 3
		}
	}
	if os.Getenv("VERIF_CHILD_RESULT") == "" {
		Flush()
		flushSurvey()
	}
	os.Exit(code)
}
