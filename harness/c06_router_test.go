package harness

// C06 — router: only the first matching route runs; unhandled IQ requests get
// exactly one feature-not-implemented error.

import (
	"context"
	"encoding/xml"
	"fmt"
	"strings"
	"sync"
	"testing"

	xmpp "gosrc.io/xmpp"
	"gosrc.io/xmpp/stanza"
	"pgregory.net/rapid"
	"verifharness/vh"
)

type c06Route struct {
	Name  *string  `json:"name,omitempty"`
	Types []string `json:"types,omitempty"`
	NS    []string `json:"ns,omitempty"`
	// HasTypes / HasNS distinguish "no matcher" from "matcher with an empty list"
	HasTypes bool `json:"has_types,omitempty"`
	HasNS    bool `json:"has_ns,omitempty"`
}

type c06Packet struct {
	Kind    string `json:"kind"` // message presence iq nonstanza
	Type    string `json:"type,omitempty"`
	Id      string `json:"id,omitempty"`
	From    string `json:"from,omitempty"`
	To      string `json:"to,omitempty"`
	Payload string `json:"payload,omitempty"` // iq: key of c06Payloads, "unknown" or ""
	Nonza   string `json:"nonza,omitempty"`   // nonstanza: literal XML
	Comp    bool   `json:"component,omitempty"`
}

type c06Case struct {
	Routes []c06Route `json:"routes"`
	Packet c06Packet  `json:"packet"`
	// Pending: ids of IQ requests waiting for their response (Router.NewIQResultRoute) when the packet arrives. A result
	// or error IQ with such an id belongs to that request alone; everything else is routed as if nothing were pending.
	Pending []string `json:"pending,omitempty"`
	// Before: packets the same Router has routed earlier (only without pending requests): what a router did with one
	// packet must not change what it does with the next
	Before []c06Packet `json:"before,omitempty"`
}

var c06Payloads = map[string][2]string{ // key -> (namespace, xml)
	"disco-info":  {"http://jabber.org/protocol/disco#info", `<query xmlns='http://jabber.org/protocol/disco#info'/>`},
	"disco-items": {"http://jabber.org/protocol/disco#items", `<query xmlns='http://jabber.org/protocol/disco#items'/>`},
	"roster":      {"jabber:iq:roster", `<query xmlns='jabber:iq:roster'/>`},
	"version":     {"jabber:iq:version", `<query xmlns='jabber:iq:version'><name>n</name></query>`},
	"pubsub":      {"http://jabber.org/protocol/pubsub", `<pubsub xmlns='http://jabber.org/protocol/pubsub'/>`},
	"bind":        {"urn:ietf:params:xml:ns:xmpp-bind", `<bind xmlns='urn:ietf:params:xml:ns:xmpp-bind'/>`},
	"command":     {"http://jabber.org/protocol/commands", `<command xmlns='http://jabber.org/protocol/commands' node='n'/>`},
}
var c06PayloadKeys = []string{"disco-info", "disco-items", "roster", "version", "pubsub", "bind", "command"}

var c06Nonzas = []string{
	`<a xmlns='urn:xmpp:sm:3' h='1'/>`,
	`<r xmlns='urn:xmpp:sm:3'/>`,
	`<stream:features><bind xmlns='urn:ietf:params:xml:ns:xmpp-bind'/></stream:features>`,
	`<success xmlns='urn:ietf:params:xml:ns:xmpp-sasl'/>`,
	`<stream:error><conflict xmlns='urn:ietf:params:xml:ns:xmpp-streams'/></stream:error>`,
	`<enabled xmlns='urn:xmpp:sm:3' id='x'/>`,
}

var c06Types = map[string][]string{
	"message":  {"", "chat", "normal", "groupchat", "headline", "error"},
	"presence": {"", "unavailable", "subscribe", "subscribed", "unsubscribe", "unsubscribed", "probe", "error"},
	"iq":       {"get", "set", "result", "error"},
}

func mixCase(t *rapid.T, s string) string {
	switch rapid.IntRange(0, 3).Draw(t, "case") {
	case 0:
		return strings.ToUpper(s)
	case 1:
		if s == "" {
			return s
		}
		return strings.ToUpper(s[:1]) + s[1:]
	}
	return s
}

// genC06Packet draws a packet; kindBias, when set, is the kind it gets two times out of three.
func genC06Packet(t *rapid.T, kindBias string) c06Packet {
	var pk c06Packet
	p := &pk
	p.Kind = rapid.SampledFrom([]string{"message", "presence", "iq", "iq", "iq", "nonstanza"}).Draw(t, "kind")
	if kindBias != "" && rapid.IntRange(0, 2).Draw(t, "sameKind") != 0 {
		p.Kind = kindBias
	}
	p.Comp = rapid.IntRange(0, 4).Draw(t, "comp") == 0
	if p.Kind == "nonstanza" {
		p.Nonza = rapid.SampledFrom(c06Nonzas).Draw(t, "nonza")
		p.Comp = false
	} else {
		p.Type = rapid.SampledFrom(c06Types[p.Kind]).Draw(t, "ptype")
		p.Id = rapid.StringMatching(`[a-z0-9]{0,4}`).Draw(t, "id")
		p.From = rapid.SampledFrom([]string{"", "a@x.org/r", "x.org", "b@y.org"}).Draw(t, "from")
		p.To = rapid.SampledFrom([]string{"", "me@x.org/r", "comp.x.org", "c@z.org"}).Draw(t, "to")
		if p.Kind == "iq" {
			p.Payload = rapid.SampledFrom(append([]string{"", "unknown"}, c06PayloadKeys...)).Draw(t, "payload")
		}
	}
	return pk
}

func genC06(t *rapid.T) c06Case {
	var c c06Case
	c.Packet = genC06Packet(t, "")
	p := &c.Packet
	if rapid.IntRange(0, 3).Draw(t, "pending") == 0 {
		k := rapid.IntRange(1, 3).Draw(t, "npending")
		for i := 0; i < k; i++ {
			id := fmt.Sprintf("pend-%d", i)
			// the packet's own id, unless it is an IQ request (what a request with the id of a pending request means is
			// not documented)
			if p.Id != "" && !(p.Kind == "iq" && (p.Type == "get" || p.Type == "set")) && rapid.Bool().Draw(t, "pendingHit") {
				id = p.Id
			}
			c.Pending = append(c.Pending, id)
		}
	}
	n := rapid.IntRange(0, 6).Draw(t, "nroutes")
	allTypes := []string{"chat", "normal", "groupchat", "headline", "error", "unavailable", "subscribe", "probe", "get", "set", "result"}
	allNS := []string{"urn:x:other"}
	for _, k := range c06PayloadKeys {
		allNS = append(allNS, c06Payloads[k][0])
	}
	for i := 0; i < n; i++ {
		var r c06Route
		// bias matchers towards the packet so that several routes accept it
		if rapid.IntRange(0, 2).Draw(t, "hasName") != 0 {
			var name string
			if rapid.IntRange(0, 2).Draw(t, "nameHit") != 0 && p.Kind != "nonstanza" {
				name = p.Kind
			} else {
				name = rapid.SampledFrom([]string{"message", "presence", "iq", "foo"}).Draw(t, "name")
			}
			name = mixCase(t, name)
			r.Name = &name
		}
		if rapid.IntRange(0, 2).Draw(t, "hasTypes") == 0 {
			r.HasTypes = true
			k := rapid.IntRange(0, 3).Draw(t, "ntypes")
			for j := 0; j < k; j++ {
				ty := rapid.SampledFrom(allTypes).Draw(t, "type")
				if rapid.Bool().Draw(t, "typeHit") {
					ty = p.Type
					if p.Kind == "message" && ty == "" {
						ty = "normal"
					}
					if ty == "" {
						ty = "probe"
					}
				}
				r.Types = append(r.Types, mixCase(t, ty))
			}
		}
		if rapid.IntRange(0, 3).Draw(t, "hasNS") == 0 {
			r.HasNS = true
			k := rapid.IntRange(0, 3).Draw(t, "nns")
			for j := 0; j < k; j++ {
				ns := rapid.SampledFrom(allNS).Draw(t, "ns")
				if pl, ok := c06Payloads[p.Payload]; ok && rapid.Bool().Draw(t, "nsHit") {
					ns = pl[0]
				}
				r.NS = append(r.NS, ns)
			}
		}
		c.Routes = append(c.Routes, r)
	}
	if len(c.Pending) == 0 && rapid.IntRange(0, 2).Draw(t, "history") == 0 {
		k := rapid.IntRange(1, 3).Draw(t, "nbefore")
		for i := 0; i < k; i++ {
			c.Before = append(c.Before, genC06Packet(t, p.Kind))
		}
	}
	return c
}

func (p c06Packet) xml() (header, elem string) {
	header = clientStreamHeader
	if p.Comp {
		header = componentStreamHeader
	}
	if p.Kind == "nonstanza" {
		return header, p.Nonza
	}
	var sb strings.Builder
	sb.WriteString("<" + p.Kind)
	for _, kv := range [][2]string{{"type", p.Type}, {"id", p.Id}, {"from", p.From}, {"to", p.To}} {
		if kv[1] != "" {
			fmt.Fprintf(&sb, " %s='%s'", kv[0], xmlEscAttr(kv[1]))
		}
	}
	sb.WriteString(">")
	switch p.Kind {
	case "message":
		sb.WriteString("<body>hi</body>")
	case "presence":
		sb.WriteString("<status>s</status>")
	case "iq":
		if p.Payload == "unknown" {
			sb.WriteString(`<thing xmlns='urn:x:unknown'><x/></thing>`)
		} else if pl, ok := c06Payloads[p.Payload]; ok {
			sb.WriteString(pl[1])
		}
		if p.Type == "error" {
			sb.WriteString(`<error type='cancel'><item-not-found xmlns='urn:ietf:params:xml:ns:xmpp-stanzas'/></error>`)
		}
	}
	sb.WriteString("</" + p.Kind + ">")
	return header, sb.String()
}

// refRouteAccepts is the reference matcher, written from the package comment.
func refRouteAccepts(r c06Route, p c06Packet) bool {
	if r.Name != nil {
		if p.Kind == "nonstanza" || strings.ToLower(*r.Name) != p.Kind {
			return false
		}
	}
	if r.HasTypes {
		if p.Kind == "nonstanza" {
			return false
		}
		ty := p.Type
		if p.Kind == "message" && ty == "" {
			ty = "normal"
		}
		ok := false
		for _, x := range r.Types {
			if strings.ToLower(x) == ty {
				ok = true
			}
		}
		if !ok {
			return false
		}
	}
	if r.HasNS {
		if p.Kind != "iq" {
			return false
		}
		pl, known := c06Payloads[p.Payload]
		if !known {
			return false // no payload, or unknown payload in a namespace no matcher names
		}
		ok := false
		for _, x := range r.NS {
			if strings.ToLower(x) == pl[0] {
				ok = true
			}
		}
		if !ok {
			return false
		}
	}
	return true
}

type mockSender struct {
	mu   sync.Mutex
	sent []stanza.Packet
	raw  []string
	iqs  []*stanza.IQ
}

func (m *mockSender) Send(p stanza.Packet) error {
	m.mu.Lock()
	defer m.mu.Unlock()
	m.sent = append(m.sent, p)
	return nil
}
func (m *mockSender) SendRaw(s string) error {
	m.mu.Lock()
	defer m.mu.Unlock()
	m.raw = append(m.raw, s)
	return nil
}
func (m *mockSender) SendIQ(ctx context.Context, iq *stanza.IQ) (chan stanza.IQ, error) {
	m.mu.Lock()
	defer m.mu.Unlock()
	m.iqs = append(m.iqs, iq)
	return make(chan stanza.IQ), nil
}

func runC06(c c06Case) vh.Result {
	var res vh.Result
	header, elem := c.Packet.xml()
	pkt, err := parseTop(header, elem)
	if err != nil {
		res.Fail("harness-parse", "generated packet %q does not parse: %v", elem, err)
		return res
	}
	router := xmpp.NewRouter()
	calls := make([]int, len(c.Routes))
	var got []stanza.Packet
	for i, r := range c.Routes {
		i := i
		route := router.NewRoute()
		if r.Name != nil {
			route.Packet(*r.Name)
		}
		if r.HasTypes {
			route.StanzaType(append([]string(nil), r.Types...)...)
		}
		if r.HasNS {
			route.IQNamespaces(append([]string(nil), r.NS...)...)
		}
		route.HandlerFunc(func(s xmpp.Sender, p stanza.Packet) {
			calls[i]++
			got = append(got, p)
		})
	}
	// earlier traffic through the same router
	for _, b := range c.Before {
		bh, be := b.xml()
		bp, err := parseTop(bh, be)
		if err != nil {
			res.Fail("harness-parse", "generated packet %q does not parse: %v", be, err)
			return res
		}
		xmpp.VerifRoute(router, &mockSender{}, bp)
	}
	if len(c.Before) > 0 {
		res.Label("router-used-before")
		for i := range calls {
			calls[i] = 0
		}
		got = nil
	}
	want := -1
	accepting := 0
	for i, r := range c.Routes {
		if refRouteAccepts(r, c.Packet) {
			accepting++
			if want < 0 {
				want = i
			}
		}
	}
	ctx, cancel := context.WithCancel(context.Background())
	defer cancel()
	pending := map[string]chan stanza.IQ{}
	for _, id := range c.Pending {
		if _, dup := pending[id]; !dup {
			pending[id] = router.NewIQResultRoute(ctx, id)
		}
	}
	isResponse := c.Packet.Kind == "iq" && (c.Packet.Type == "result" || c.Packet.Type == "error")
	_, awaited := pending[c.Packet.Id]
	awaited = awaited && isResponse && c.Packet.Kind != "nonstanza"
	if len(pending) > 0 {
		res.Label("requests-pending")
	}
	if awaited {
		// the response belongs to the pending request: no route sees it, nothing is sent
		res.Label("response-to-pending-request")
		want = -1
	}
	sender := &mockSender{}
	xmpp.VerifRoute(router, sender, pkt)
	for id, ch := range pending {
		select {
		case iq, open := <-ch:
			switch {
			case !(awaited && id == c.Packet.Id):
				res.Fail("pending-request-disturbed", "request %q is pending; packet %s made its channel deliver %v (open %v)", id, elem, iq, open)
			case !open || iq.Id != c.Packet.Id:
				res.Fail("pending-response-wrong", "pending request %q: channel delivered %+v (open %v) for packet %s", id, iq, open, elem)
			}
		default:
			if awaited && id == c.Packet.Id {
				res.Fail("pending-response-not-delivered", "request %q is pending but response %s was not delivered on its channel", id, elem)
			}
		}
	}

	for i, n := range calls {
		switch {
		case i == want && n != 1:
			res.Fail("first-match-not-run", "route %d is the first route accepting the packet but its handler ran %d times (packet %s)", i, n, elem)
		case i != want && n != 0:
			res.Fail("other-route-run", "handler of route %d ran %d times; the first accepting route is %d (packet %s)", i, n, want, elem)
		}
	}
	isRequest := c.Packet.Kind == "iq" && (c.Packet.Type == "get" || c.Packet.Type == "set")
	nSent := len(sender.sent) + len(sender.raw) + len(sender.iqs)
	if awaited {
		if nSent != 0 {
			res.Fail("reply-to-awaited-response", "response %s to a pending request caused %d sends: %v %v", elem, nSent, sender.sent, sender.raw)
		}
	} else if want < 0 && isRequest {
		if nSent != 1 || len(sender.sent) != 1 {
			res.Fail("unhandled-iq-reply-count", "unhandled IQ %s: %d replies sent (Send %d, SendRaw %d, SendIQ %d), expected exactly one", elem, nSent, len(sender.sent), len(sender.raw), len(sender.iqs))
		} else {
			data, err := xml.Marshal(sender.sent[0])
			var back stanza.IQ
			if err == nil {
				err = xml.Unmarshal(data, &back)
			}
			if err != nil {
				res.Fail("unhandled-iq-reply-invalid", "reply does not serialise/parse: %v", err)
			} else {
				if back.Type != "error" || back.Id != c.Packet.Id || back.From != c.Packet.To || back.To != c.Packet.From ||
					back.Error == nil || back.Error.Reason != "feature-not-implemented" {
					res.Fail("unhandled-iq-reply-wrong", "request %s answered with %s", elem, data)
				}
			}
		}
	} else if nSent != 0 {
		res.Fail("unexpected-reply", "packet %s (first accepting route %d) caused %d sends: %v %v", elem, want, nSent, sender.sent, sender.raw)
	}
	res.NonTrivial = (len(c.Routes) >= 2 && accepting >= 2) || (want < 0)
	if accepting >= 2 {
		res.Label("several-routes-accept")
	}
	if want < 0 {
		res.Label("no-route-accepts")
		if isRequest {
			res.Label("unhandled-iq-request")
		}
	}
	if want > 0 {
		res.Label("first-match-not-first-route")
	}
	res.Label("kind-" + c.Packet.Kind)
	return res
}

var c06 = vh.Define(&vh.Def[c06Case]{
	Property: "C06", Name: "router",
	Rule: "route tables of 0-6 routes, each with any conjunction of Packet(name), StanzaType(types...), IQNamespaces(ns...) (names and types in mixed case, possibly empty lists) or no matcher, matchers biased towards the packet so that several routes accept it; packets = message / presence / IQ of every type (registered payload, unknown payload, none; client and component namespace) and non-stanza packets, in a quarter of the cases with 1-3 IQ requests pending on the router (a third of the other cases route 1-3 earlier packets, mostly of the same kind, through the same router first; ids foreign or equal to the packet's: only a result/error IQ with a pending id goes to that request - its channel gets it, no route and no reply - every other packet, same id or not, is routed as usual and disturbs no pending channel), produced by the library's own parser; oracle = reference router written from the package comment (index of the first accepting route; exactly that handler once; unhandled IQ get/set answered once with feature-not-implemented, same id, from/to swapped; nothing sent otherwise); IQs with an unknown payload are never paired with a namespace matcher naming that namespace (behaviour not documented); non-trivial = at least two routes accept the packet, or none does",
	Quick: 50000, Thorough: 3000000,
	Gen: genC06, Run: runC06,
})

func TestC06_router(t *testing.T)  { c06.Check(t) }
func TestC06_Regress(t *testing.T) { vh.Regress(t, "C06") }
