package harness

// C11 — stream management: resume only with the previous id and count; drop
// stale state. Histories of 2-5 connections of one Client against the
// scripted peer, with every kind of reply to <resume/>.

import (
	"fmt"
	"strconv"
	"strings"
	"testing"
	"time"

	xmpp "gosrc.io/xmpp"
	"gosrc.io/xmpp/stanza"
	"pgregory.net/rapid"
	"verifharness/peer"
	"verifharness/vh"
)

type c11Conn struct {
	OfferSM bool   `json:"offer_sm"`
	Reply   string `json:"reply"`   // resumed-same resumed-other failed failed-h failed-item-not-found failed-unexpected-request failed-feature-not-implemented failed-service-unavailable unexpected malformed close
	Inbound int    `json:"inbound"` // stanzas the peer sends once the session is up
	Sends   int    `json:"sends"`   // stanzas the client sends (they stay unacknowledged)
}

type c11Case struct {
	First c11Conn   `json:"first"` // fresh session (Reply unused)
	Later []c11Conn `json:"later"`
}

var c11Replies = []string{"resumed-same", "resumed-same", "resumed-same", "resumed-other", "resumed-noid", "resumed-emptyid", "failed", "failed-h", "failed-item-not-found", "failed-unexpected-request",
	"failed-feature-not-implemented", "failed-service-unavailable", "unexpected", "malformed", "close"}

func genC11(t *rapid.T) c11Case {
	var c c11Case
	c.First = c11Conn{OfferSM: true, Inbound: rapid.IntRange(0, 4).Draw(t, "inbound"), Sends: rapid.IntRange(0, 3).Draw(t, "sends")}
	n := rapid.IntRange(1, 4).Draw(t, "nlater")
	for i := 0; i < n; i++ {
		c.Later = append(c.Later, c11Conn{
			OfferSM: rapid.IntRange(0, 5).Draw(t, "offerSM") != 0,
			Reply:   rapid.SampledFrom(c11Replies).Draw(t, "reply"),
			Inbound: rapid.IntRange(0, 4).Draw(t, "inbound"),
			Sends:   rapid.IntRange(0, 3).Draw(t, "sends"),
		})
	}
	return c
}

type c11Obs struct {
	idx      int
	out      *peer.Outcome
	resumeID string
	resumeH  string
	bound    bool
	enabled  bool
	newID    string
	synced   bool
	note     string
}

func runC11(c c11Case) vh.Result {
	var res vh.Result
	specs := append([]c11Conn{c.First}, c.Later...)
	obsc := make(chan c11Obs, 16)
	srv, err := peer.Listen(func(pc *peer.Conn) {
		o := c11Obs{idx: pc.Index}
		if pc.Index >= len(specs) {
			pc.Close()
			return
		}
		spec := specs[pc.Index]
		script := &peer.Script{Mechs: []string{"PLAIN"}, OfferSM: spec.OfferSM, SMId: fmt.Sprintf("sm-%d", pc.Index), BindJid: fmt.Sprintf("user@localhost/bound-%d", pc.Index)}
		switch spec.Reply {
		case "unexpected", "malformed", "close":
			script.Dev = map[string]peer.Dev{"resume": {Kind: spec.Reply, Variant: 3}}
		default:
			script.ResumeReply = spec.Reply
		}
		out := pc.Negotiate(script, 10*time.Second)
		o.out = out
		if out.ResumeReq != nil {
			o.resumeID = out.ResumeReq.Attr["previd"]
			o.resumeH = out.ResumeReq.Attr["h"]
		}
		for _, st := range out.Completed {
			if st == "bind" {
				o.bound = true
			}
			if st == "enable" {
				o.enabled = true
				o.newID = script.SMId
			}
		}
		if !out.Established {
			obsc <- o
			pc.AfterFault(5 * time.Second)
			return
		}
		// session is up: feed some stanzas, synchronise with <r/> when SM is active on this connection
		for i := 0; i < spec.Inbound; i++ {
			pc.Send(inboundStanza("m", fmt.Sprintf("c%d-%d", pc.Index, i), 0))
		}
		smActive := out.Resumed || o.enabled
		if smActive {
			pc.Send("<r xmlns='urn:xmpp:sm:3'/>")
			for {
				ev := pc.NextElem(5 * time.Second)
				if ev.Kind != "elem" {
					o.note = "no answer to <r/>: " + ev.Kind
					break
				}
				if ev.Name.Local == "a" {
					o.synced = true
					break
				}
			}
		} else {
			// no SM: wait until the client's sends arrived, bounded
			time.Sleep(30 * time.Millisecond)
		}
		obsc <- o
		// wait for the test to finish its own sends, then drop the connection gracefully
		for {
			ev := pc.NextElem(10 * time.Second)
			if ev.Kind == "elem" && ev.Name.Local == "message" && ev.Attr["id"] == "drop-now" {
				break
			}
			if ev.Kind != "elem" {
				break
			}
		}
		pc.GracefulClose(time.Second)
	})
	if err != nil {
		res.Fail("harness", "listen: %v", err)
		return res
	}
	defer srv.Close()
	cl, rec, _, err := newTestClientCfg(srv.Addr, clientOpt{Insecure: true, SM: true})
	if err != nil {
		res.Fail("harness", "NewClient: %v", err)
		return res
	}
	defer func() { go func() { _ = cl.Disconnect() }() }()

	// model
	curID := ""      // id obtained at the last enable and not yet invalidated
	inbound := 0     // stanzas received on the SM session identified by curID
	hKnown := true   // false once stanzas were received on a connection without SM
	var usedIDs []string // every id that became stale (must never be presented again)
	nonSuccess, resumptions := 0, 0
	disconnects := 0

	for i, spec := range specs {
		var cerr error
		if i == 0 {
			cerr = cl.Connect()
		} else {
			cerr = cl.Resume()
		}
		var o c11Obs
		select {
		case o = <-obsc:
		case <-time.After(vh.Margin(15 * time.Second)):
			res.Fail("harness", "connection %d: peer did not report", i)
			return res
		}
		desc := fmt.Sprintf("connection %d (offer_sm=%v reply=%s) of history %+v", i, spec.OfferSM, spec.Reply, specs)
		// --- what was presented
		expectResume := i > 0 && spec.OfferSM && curID != ""
		if o.resumeID != "" {
			for _, stale := range usedIDs {
				if o.resumeID == stale {
					res.Fail("stale-id-presented", "%s: <resume previd=%q/> presents an id that was refused / invalidated earlier", desc, o.resumeID)
				}
			}
			if curID == "" {
				res.Fail("resume-without-id", "%s: <resume previd=%q/> although no resumable id is held", desc, o.resumeID)
			} else if o.resumeID != curID {
				res.Fail("resume-wrong-id", "%s: <resume previd=%q/>, the id obtained at the last enable is %q", desc, o.resumeID, curID)
			} else if hKnown {
				if h, err := strconv.Atoi(o.resumeH); err != nil || h != inbound {
					res.Fail("resume-wrong-h", "%s: <resume h=%q/>, the client has received %d stanzas on that session", desc, o.resumeH, inbound)
				}
			}
		} else if expectResume {
			res.Fail("no-resume-attempt", "%s: a resumable id %q is held and SM is offered but the client did not ask to resume (requests %v)", desc, curID, o.out.Steps)
		}
		if len(res.Violations) > 0 {
			return res
		}
		// --- outcome
		resumedOK := false
		if o.resumeID != "" {
			switch {
			case spec.Reply == "resumed-same":
				resumptions++
				resumedOK = true
				if cerr != nil {
					res.Fail("resumption-rejected", "%s: the server confirmed the id but Resume failed: %v", desc, cerr)
					return res
				}
				if o.bound {
					res.Fail("bind-after-resumption", "%s: the session was resumed but the client bound a resource again", desc)
				}
				if cl.Session.SMState.Id != curID {
					res.Fail("state-lost-on-resumption", "%s: after resumption the SM id is %q, expected %q", desc, cl.Session.SMState.Id, curID)
				}
				if checkQueueNext {
					var got []string
					if q := cl.Session.SMState.UnAckQueue; q != nil {
						q.RLock()
						for _, u := range q.Uslice {
							got = append(got, u.Stz)
						}
						q.RUnlock()
					}
					if strings.Join(got, "\n") != strings.Join(queueBefore, "\n") {
						res.Fail("held-stanzas-lost-on-resumption", "%s: before the loss the client held %q, after the resumption it holds %q", desc, queueBefore, got)
					}
				}
			case strings.HasPrefix(spec.Reply, "failed"):
				nonSuccess++
				usedIDs = append(usedIDs, curID)
				curID, inbound, hKnown = "", 0, true
				if cerr != nil {
					res.Fail("no-fresh-bind-after-refusal:"+spec.Reply, "%s: the server refused the resumption with <failed/>; the client must bind a fresh session but Resume failed: %v", desc, cerr)
					return res
				}
				if !o.bound {
					res.Fail("no-fresh-bind-after-refusal:"+spec.Reply, "%s: after <failed/> no bind request followed (requests %v)", desc, o.out.Steps)
					return res
				}
			default: // resumed-other, unexpected, malformed, close
				nonSuccess++
				usedIDs = append(usedIDs, curID)
				curID, inbound, hKnown = "", 0, true
				if cerr == nil && !o.bound {
					res.Fail("old-session-continued", "%s: the reply did not confirm the id, yet Resume returned nil without a fresh bind", desc)
					return res
				}
				if cerr == nil && o.bound {
					// binding a fresh session is also acceptable
				}
				if id := cl.Session; id != nil && cl.Session.SMState.Id != "" && cl.Session.SMState.Id == usedIDs[len(usedIDs)-1] {
					res.Fail("stale-state-kept", "%s: the stale SM id %q is still held after the reply", desc, cl.Session.SMState.Id)
				}
			}
		} else {
			if cerr != nil {
				res.Fail("fresh-session-failed", "%s: no resumption was attempted and the server completed every step, but the connection failed: %v", desc, cerr)
				return res
			}
		}
		if cerr != nil {
			// failed connection: nothing is up; go on with the next connection
			continue
		}
		if !resumedOK {
			// fresh session
			if !o.bound {
				res.Fail("no-bind-on-fresh-session", "%s: neither resumed nor bound (requests %v)", desc, o.out.Steps)
				return res
			}
			want := fmt.Sprintf("user@localhost/bound-%d", i)
			if cl.Session.BindJid != want {
				res.Fail("bindjid-wrong", "%s: BindJid %q after a fresh bind, the server assigned %q", desc, cl.Session.BindJid, want)
			}
			if o.enabled {
				if curID != "" {
					usedIDs = append(usedIDs, curID) // replaced by a newer enable
				}
				curID, inbound, hKnown = o.newID, 0, true
			} else if spec.OfferSM {
				res.Fail("no-enable", "%s: SM is offered and requested but the client did not enable it (requests %v)", desc, o.out.Steps)
			}
		}
		// --- traffic on the session
		smActive := resumedOK || o.enabled
		if smActive {
			if !o.synced {
				res.Fail("t/r-not-answered", "%s: <r/> on the session was not answered (%s)", desc, o.note)
				return res
			}
			inbound += spec.Inbound
			if hKnown && int(cl.Session.SMState.Inbound) != inbound {
				res.Fail("inbound-count", "%s: the client counts %d inbound stanzas, the server sent %d on this SM session", desc, cl.Session.SMState.Inbound, inbound)
			}
		} else if spec.Inbound > 0 {
			hKnown = false
		}
		var before []string
		for k := 0; k < spec.Sends; k++ {
			m := stanza.NewMessage(stanza.Attrs{To: "a@localhost", Id: fmt.Sprintf("out-%d-%d", i, k)})
			m.Body = "x"
			_ = cl.Send(m)
		}
		if q := cl.Session.SMState.UnAckQueue; q != nil && smActive {
			q.RLock()
			for _, u := range q.Uslice {
				before = append(before, u.Stz)
			}
			q.RUnlock()
		}
		_ = cl.SendRaw("<message to='peer' id='drop-now'/>")
		disconnects++
		if !waitFor(vh.Margin(5*time.Second), func() bool { return rec.count(xmpp.StateDisconnected) >= disconnects }) {
			res.Fail("t/harness-no-disconnect", "%s: the peer dropped the connection but no Disconnected event arrived", desc)
			return res
		}
		// held stanzas must survive until the next (possibly resumed) connection: compare right after the next resumption
		if i+1 < len(specs) && specs[i+1].OfferSM && specs[i+1].Reply == "resumed-same" && smActive && curID != "" {
			// remember for the next round through a closure-free check: verified below on the next iteration via queueBefore
			queueBefore = append([]string(nil), before...)
			queueBefore = append(queueBefore, "<message to='peer' id='drop-now'/>")
			checkQueueNext = true
		} else {
			checkQueueNext = false
		}
	}
	res.NonTrivial = len(specs) >= 2 && (nonSuccess > 0 || resumptions >= 2)
	if resumptions > 0 {
		res.Label("resumed")
	}
	if nonSuccess > 0 {
		res.Label("non-success-reply")
	}
	return res
}

// (state carried between iterations of runC11; reset at the start of every run by the zero assignment below)
var (
	queueBefore    []string
	checkQueueNext bool
)

var c11 = vh.Define(&vh.Def[c11Case]{
	Property: "C11", Name: "resume",
	Rule: "histories of 2-5 connections of one Client (Connect, then Resume after each server-side drop); per later connection: SM advertised or not x reply to <resume/> in {resumed same id, resumed other id, resumed without / with an empty previd, <failed/> empty / with h / with each XEP-0198 condition, unexpected element, malformed, close}; each established session receives 0-4 stanzas and an <r/> and sends 0-3 stanzas; the peer hands out a new id at every enable; model: <resume/> appears only when an id from the last enable is held, with exactly that previd and h = stanzas received on that session; same id => no bind, id/BindJid/counter kept; <failed/> => fresh bind on the same connection; any other reply => the stale id is dropped, never presented again on any later connection, and the old session is not continued; non-trivial = >= 2 connections with a non-success reply, or >= 2 resumptions",
	Quick: 300, Thorough: 12000, Journal: true,
	Gen: genC11, Run: func(c c11Case) vh.Result { queueBefore, checkQueueNext = nil, false; return runC11(c) },
})

func TestC11_resume(t *testing.T)  { c11.Check(t) }
func TestC11_Regress(t *testing.T) { vh.Regress(t, "C11") }
