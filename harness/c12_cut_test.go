package harness

// C12 — a lost connection is reported exactly once at every cut point;
// nothing leaks. The peer sends a prefix of a generated inbound stream, then
// half-closes the connection and keeps draining.

import (
	"sync/atomic"
	"errors"
	"fmt"
	"os"
	"regexp"
	"runtime"
	"strings"
	"testing"
	"time"

	xmpp "gosrc.io/xmpp"
	"gosrc.io/xmpp/stanza"
	"pgregory.net/rapid"
	"verifharness/peer"
	"verifharness/vh"
)

type c12Case struct {
	Items []string `json:"items"` // keys of c12Elems or stanza kinds
	Cut   int      `json:"cut"`   // byte offset into the feed; clamped to its length
	SM    bool     `json:"sm"`
	// connection variants: STARTTLS (optionally capped at TLS 1.2), traffic logger, and whether the last bytes and the
	// end of the stream leave the server in one TCP segment
	TLS      bool `json:"tls,omitempty"`
	TLS12    bool `json:"tls12,omitempty"`
	Logger   bool `json:"logger,omitempty"`
	Together bool `json:"together,omitempty"`
	// WS: WebSocket transport; the connection is dropped at TCP level after the complete messages that fit into
	// the cut offset (a WebSocket message is the unit of transmission, so cuts fall between elements)
	WS bool `json:"ws,omitempty"`
	// Prior (TCP): what the same Client went through before the session that is cut: a connection attempt refused at
	// auth or at bind, a session that was lost, one the server ended with a stream error, or one the application
	// closed with Disconnect
	Prior string `json:"prior,omitempty"`
	// AckThenGone (plain TCP, stream management): the application has sent 2-3 stanzas; the last thing the server sends
	// (the whole feed goes out) is an <a h='0'/>, which makes the client send them again - to a server that has closed
	// the connection completely, so that those writes fail while the loss is being noticed. Still exactly one report.
	AckThenGone int `json:"ack_then_gone,omitempty"` // number of stanzas sent beforehand (0 = off)
}

// (AckThenGone below)
var c12Priors = []string{"auth-failed", "bind-failed", "lost", "stream-error", "disconnected"}

var c12Rich = map[string]string{
	"m-entities": "<message from='a@localhost/r' id='%s' type='chat'><body>a &amp; b &lt;c&gt; &#x41;&#66; &quot;q&quot;</body></message>",
	"m-cdata":    "<message from='a@localhost/r' id='%s'><body><![CDATA[<message id='fake'>]]> tail</body><x xmlns='urn:x:u'><![CDATA[]]]]><![CDATA[>]]></x></message>",
	"m-attr":     "<message from=\"a@localhost/r &gt; 'x'\" id='%s' to='user@localhost'><subject>s</subject><!-- comment > --></message>",
	"m-nested":   "<message from='a@localhost/r' id='%s'><forwarded xmlns='urn:xmpp:forward:0'><message xmlns='jabber:client' id='inner'><body>x</body></message></forwarded></message>",
	"p-muc":      "<presence from='room@conf.localhost/nick' id='%s'><x xmlns='http://jabber.org/protocol/muc#user'><item affiliation='member' role='participant'/></x></presence>",
	"iq-roster":  "<iq from='localhost' id='%s' type='result'><query xmlns='jabber:iq:roster'><item jid='b@c' name='B &amp; C'><group>g</group></item></query></iq>",
}
var c12Keys = []string{"m", "p", "iq-result", "iq-get", "iq-error", "r", "a", "features", "m-entities", "m-cdata", "m-attr", "m-nested", "p-muc", "iq-roster"}

func c12ItemXML(k, id string) (xml string, stanza bool) {
	if f, ok := c12Rich[k]; ok {
		return fmt.Sprintf(f, id), true
	}
	if isStanzaItem(k) {
		return inboundStanza(k, id, 0), true
	}
	return nonzaXML(k), false
}

func (c *c12Case) feed() (data string, ends []int, ids []string) {
	var sb strings.Builder
	for i, k := range c.Items {
		id := fmt.Sprintf("s%d", i)
		x, st := c12ItemXML(k, id)
		sb.WriteString(x)
		if st {
			ends = append(ends, sb.Len())
			ids = append(ids, id)
		}
	}
	if c.AckThenGone > 0 {
		sb.WriteString("<a xmlns='urn:xmpp:sm:3' h='0'/>")
	}
	return sb.String(), ends, ids
}

// offsetClass names where in the XML an offset falls (for labels only).
func offsetClass(data string, off int) string {
	if off <= 0 || off >= len(data) {
		return "boundary"
	}
	// scan
	state := "text"
	depth := 0
	for i := 0; i < off; i++ {
		ch := data[i]
		switch state {
		case "text":
			if strings.HasPrefix(data[i:], "<![CDATA[") {
				state = "cdata"
			} else if strings.HasPrefix(data[i:], "<!--") {
				state = "comment"
			} else if ch == '<' {
				state = "tag"
				if i+1 < len(data) && data[i+1] == '/' {
					depth--
				} else {
					depth++
				}
			} else if ch == '&' {
				state = "entity"
			}
		case "entity":
			if ch == ';' {
				state = "text"
			}
		case "cdata":
			if strings.HasSuffix(data[:i+1], "]]>") {
				state = "text"
			}
		case "comment":
			if strings.HasSuffix(data[:i+1], "-->") {
				state = "text"
			}
		case "tag":
			if ch == '\'' {
				state = "attr-s"
			} else if ch == '"' {
				state = "attr-d"
			} else if ch == '>' {
				if i > 0 && data[i-1] == '/' {
					depth--
				}
				state = "text"
			}
		case "attr-s":
			if ch == '\'' {
				state = "tag"
			}
		case "attr-d":
			if ch == '"' {
				state = "tag"
			}
		}
	}
	if state == "text" && depth == 0 {
		return "between-elements"
	}
	if state == "attr-s" || state == "attr-d" {
		return "in-attribute"
	}
	return "in-" + state
}

func genC12(t *rapid.T) c12Case {
	var c c12Case
	n := rapid.IntRange(1, 10).Draw(t, "n")
	for i := 0; i < n; i++ {
		c.Items = append(c.Items, rapid.SampledFrom(c12Keys).Draw(t, "item"))
	}
	c.SM = rapid.Bool().Draw(t, "sm")
	if rapid.IntRange(0, 2).Draw(t, "tls") == 0 {
		c.TLS = true
		c.TLS12 = rapid.Bool().Draw(t, "tls12")
	}
	if !c.TLS && rapid.IntRange(0, 5).Draw(t, "ws") == 0 {
		c.WS = true
	}
	c.Logger = rapid.IntRange(0, 2).Draw(t, "logger") == 0
	c.Together = rapid.Bool().Draw(t, "together")
	if !c.WS && !c.TLS && c.SM && rapid.IntRange(0, 3).Draw(t, "ackThenGone") == 0 {
		c.AckThenGone = rapid.IntRange(2, 3).Draw(t, "unacked")
		c.Together = false
	}
	if !c.WS && rapid.IntRange(0, 3).Draw(t, "hasPrior") == 0 {
		c.Prior = rapid.SampledFrom(c12Priors).Draw(t, "prior")
	}
	data, ends, _ := c.feed()
	switch rapid.IntRange(0, 3).Draw(t, "cutClass") {
	case 0: // exactly between two elements
		if len(ends) > 0 {
			c.Cut = rapid.SampledFrom(ends).Draw(t, "cutEnd")
		}
	default:
		c.Cut = rapid.IntRange(0, len(data)).Draw(t, "cut")
	}
	return c
}

var goroutineHeader = regexp.MustCompile(`^goroutine (\d+) \[`)

// libGoroutines returns id -> stack of every goroutine with a frame in the library.
func libGoroutines() map[string]string {
	buf := make([]byte, 1<<20)
	for {
		n := runtime.Stack(buf, true)
		if n < len(buf) {
			buf = buf[:n]
			break
		}
		buf = make([]byte, 2*len(buf))
	}
	out := map[string]string{}
	for _, block := range strings.Split(string(buf), "\n\n") {
		if !strings.Contains(block, "gosrc.io/xmpp.") && !strings.Contains(block, "gosrc.io/xmpp/") {
			continue
		}
		// only frames of the library's own functions count, not "created by" lines of harness goroutines
		lib := false
		for _, line := range strings.Split(block, "\n") {
			if (strings.HasPrefix(line, "gosrc.io/xmpp.") || strings.HasPrefix(line, "gosrc.io/xmpp/") || strings.HasPrefix(line, "created by gosrc.io/xmpp")) && !strings.Contains(line, "verifharness") {
				lib = true
			}
		}
		if !lib {
			continue
		}
		if m := goroutineHeader.FindStringSubmatch(block); m != nil {
			out[m[1]] = block
		}
	}
	return out
}

func runC12(c c12Case) vh.Result {
	var res vh.Result
	data, ends, ids := c.feed()
	cut := c.Cut
	if cut > len(data) {
		cut = len(data)
	}
	if cut < 0 {
		cut = 0
	}
	var want []string
	for i, e := range ends {
		if e <= cut {
			want = append(want, ids[i])
		}
	}
	if c.AckThenGone > 0 {
		cut = len(data) // everything is sent, the <a/> last
		want = ids
	}
	cls := offsetClass(data, cut)
	res.Label("cut-" + cls)
	if c.SM {
		res.Label("sm")
	}
	res.NonTrivial = cls != "between-elements" && cls != "boundary"
	baseline := libGoroutines()
	const interval = 15 * time.Millisecond
	script := &peer.Script{Mechs: []string{"PLAIN"}, OfferSM: c.SM, ExpectEnable: c.SM, SMId: "sm-c12", OfferTLS: c.TLS, TLS12: c.TLS12, Cert: "valid"}
	if c.TLS {
		res.Label("tls")
	}
	if c.Logger {
		res.Label("logger")
	}
	failc := make(chan string, 1)
	cutDone := make(chan struct{})
	var pconn *peer.Conn
	if c.WS {
		return runC12WS(c, res, baseline)
	}
	priorUp := make(chan struct{}, 1)
	writesArmed := make(chan struct{})
	var failWrites atomic.Bool
	srv, err := peer.Listen(func(pc *peer.Conn) {
		if c.Prior != "" && pc.Index == 0 {
			ps := &peer.Script{Mechs: []string{"PLAIN"}, OfferTLS: c.TLS, TLS12: c.TLS12, Cert: "valid"}
			switch c.Prior {
			case "auth-failed":
				ps.Dev = map[string]peer.Dev{"auth": {Kind: "failure"}}
			case "bind-failed":
				ps.Dev = map[string]peer.Dev{"bind": {Kind: "failure"}}
			}
			out := pc.Negotiate(ps, 10*time.Second)
			if ps.Dev != nil {
				pc.Drain(2 * time.Second)
				return
			}
			if !out.Established {
				failc <- "prior: " + fmt.Sprint(out.Steps)
				return
			}
			priorUp <- struct{}{}
			switch c.Prior {
			case "lost":
				pc.HalfClose()
			case "stream-error":
				pc.Send("<stream:error><system-shutdown xmlns='urn:ietf:params:xml:ns:xmpp-streams'/></stream:error></stream:stream>")
				pc.HalfClose()
			}
			pc.Drain(5 * time.Second)
			return
		}
		pconn = pc
		out := pc.Negotiate(script, 10*time.Second)
		if !out.Established {
			failc <- fmt.Sprint(out.Steps)
			return
		}
		if c.AckThenGone > 0 {
			// wait for the stanzas the application sends, then: the feed, and the connection closed for good
			for n := 0; n < c.AckThenGone; {
				ev := pc.NextElem(5 * time.Second)
				if ev.Kind != "elem" {
					break
				}
				if ev.Name.Local == "message" {
					n++
				}
			}
			<-writesArmed // from here on the client's writes fail: the connection is as good as gone
			pc.Send(data[:cut])
			close(cutDone)
			pc.GracefulClose(300 * time.Millisecond)
			return
		}
		if c.Together {
			pc.SendAndCloseTogether(data[:cut])
		} else {
			pc.Send(data[:cut])
			pc.HalfClose()
		}
		close(cutDone)
		pc.Drain(20 * time.Second) // keep reading what the client still writes (answers, keepalives)
	})
	if err != nil {
		res.Fail("harness", "listen: %v", err)
		return res
	}
	defer srv.Close()
	cl, rec, _, err := newTestClientCfg(srv.Addr, clientOpt{Insecure: !c.TLS, SM: c.SM, Keepalive: interval})
	if err != nil {
		res.Fail("harness", "NewClient: %v", err)
		return res
	}
	if c.Logger {
		if f, err := os.CreateTemp("", "verif-c12-*.log"); err == nil {
			defer os.Remove(f.Name())
			defer f.Close()
			xmpp.VerifGetTransport(cl).LogTraffic(f)
		}
	}
	disc0, errs0 := 0, 0
	if c.Prior != "" {
		res.Label("prior-" + c.Prior)
		res.Label("prior-history")
		err := cl.Connect()
		switch c.Prior {
		case "auth-failed", "bind-failed":
			if err == nil {
				res.Fail("harness-prior", "prior attempt (%s) did not fail", c.Prior)
				return res
			}
		default:
			if err != nil {
				res.Fail("harness-prior", "prior connection (%s): %v", c.Prior, err)
				return res
			}
			select {
			case <-priorUp:
			case s := <-failc:
				res.Fail("harness-not-established", "%s", s)
				return res
			case <-time.After(15 * time.Second):
				res.Fail("harness", "prior connection not established")
				return res
			}
			if c.Prior == "disconnected" {
				_ = cl.Disconnect()
			}
			// the end of the prior session has been reported by the event that closes its teardown (the error callback
			// comes earlier, while the old receive loop is still closing the transport) and things are quiet
			endState := xmpp.StateDisconnected
			if c.Prior == "stream-error" {
				endState = xmpp.StateStreamError
			}
			if !waitFor(vh.Margin(5*time.Second), func() bool { _, errs, _ := rec.snapshot(); return len(errs) >= 1 && rec.count(endState) >= 1 }) {
				res.Fail("harness-prior", "end of the prior session (%s) was not reported", c.Prior)
				return res
			}
		}
		stable := func() (int, int) { _, errs, _ := rec.snapshot(); return rec.count(xmpp.StateDisconnected), len(errs) }
		for i := 0; i < 40; i++ {
			d, e := stable()
			time.Sleep(vh.Margin(40 * time.Millisecond))
			if d2, e2 := stable(); d2 == d && e2 == e {
				break
			}
		}
		disc0, errs0 = stable()
	}
	if err := cl.Connect(); err != nil {
		res.Fail("harness-connect", "Connect (prior=%q tls=%v tls12=%v sm=%v): %v", c.Prior, c.TLS, c.TLS12, c.SM, err)
		return res
	}
	if c.AckThenGone > 0 {
		res.Label("ack-then-connection-gone")
		// the writes that follow the <a/> fail in a wrapped Transport (on a real socket the first write after the
		// peer has gone usually still succeeds)
		wrap := &stubTransport{inner: xmpp.VerifGetTransport(cl)}
		wrap.writeFault = func(p []byte, inner xmpp.Transport) (bool, int, error) {
			if failWrites.Load() {
				return true, 0, errors.New("write: broken pipe (injected)")
			}
			return false, 0, nil
		}
		xmpp.VerifSetTransport(cl, wrap)
		defer func() {
			failWrites.Store(true)
			select {
			case <-writesArmed:
			default:
				close(writesArmed)
			}
		}()
		for i := 0; i < c.AckThenGone; i++ {
			m := stanza.NewMessage(stanza.Attrs{To: "a@localhost", Id: fmt.Sprintf("held-%d", i)})
			m.Body = "held"
			if err := cl.Send(m); err != nil {
				res.Fail("harness-send", "Send before the feed failed: %v", err)
				return res
			}
		}
		failWrites.Store(true)
		close(writesArmed)
	}
	select {
	case <-cutDone:
	case s := <-failc:
		res.Fail("harness-not-established", "not established: %s", s)
		return res
	case <-time.After(20 * time.Second):
		res.Fail("harness", "peer did not reach the cut")
		return res
	}
	desc := fmt.Sprintf("cut at %d/%d (%s) sm=%v", cut, len(data), cls, c.SM)
	if c.Prior != "" {
		desc += " prior=" + c.Prior
	}
	// the loss must be reported
	reported := waitFor(vh.Margin(5*time.Second), func() bool {
		_, errs, _ := rec.snapshot()
		return rec.count(xmpp.StateDisconnected) >= disc0+1 && len(errs) >= errs0+1
	})
	if !reported {
		_, errs, _ := rec.snapshot()
		res.Fail("t/loss-not-reported", "%s: %d Disconnected events and %d error callbacks within the margin", desc, rec.count(xmpp.StateDisconnected)-disc0, len(errs)-errs0)
	}
	// everything completely received must be routed
	routedIDs := func() []string {
		_, _, routed := rec.snapshot()
		var out []string
		for _, p := range routed {
			if k, id := packetID(p); k != "" {
				out = append(out, id)
			}
		}
		return out
	}
	waitFor(vh.Margin(3*time.Second), func() bool { return len(routedIDs()) >= len(want) })
	// stable state: no goroutine of the library left (other than those that existed before this case)
	leaked := func() map[string]string {
		out := map[string]string{}
		for id, st := range libGoroutines() {
			if _, old := baseline[id]; !old {
				out[id] = st
			}
		}
		return out
	}
	gone := waitFor(vh.Margin(3*time.Second), func() bool { return len(leaked()) == 0 })
	time.Sleep(vh.Margin(4 * interval))
	// keepalive must have stopped: count white-space writes seen by the peer, wait, count again
	countWS := func() int {
		n := 0
		for _, e := range pconn.Transcript() {
			if e.Dir == "recv" && e.Kind == "ws" {
				n++
			}
		}
		return n
	}
	ws1 := countWS()
	time.Sleep(vh.Margin(6 * interval))
	ws2 := countWS()
	states, errs, _ := rec.snapshot()
	nDisc := -disc0
	for _, s := range states {
		if s == xmpp.StateDisconnected {
			nDisc++
		}
	}
	errs = errs[errs0:]
	if nDisc > 1 {
		res.Fail("disconnected-twice", "%s: %d Disconnected events (states %v)", desc, nDisc, states)
	}
	if len(errs) > 1 {
		res.Fail("error-callback-twice", "%s: %d error callbacks: %v", desc, len(errs), errs)
	}
	if c.SM && nDisc >= 1 {
		rec.mu.Lock()
		seen := 0
		for _, e := range rec.events {
			if xmpp.VerifEventState(e) == xmpp.StateDisconnected {
				seen++
			}
			if seen <= disc0 {
				continue // events of the prior history
			}
			if xmpp.VerifEventState(e) == xmpp.StateDisconnected && e.SMState.Id != "sm-c12" {
				res.Fail("disconnected-without-sm-state", "%s: Disconnected event carries SM id %q, expected sm-c12", desc, e.SMState.Id)
			}
		}
		rec.mu.Unlock()
	}
	got := routedIDs()
	count := map[string]int{}
	for _, id := range got {
		count[id]++
	}
	for _, id := range want {
		if count[id] == 0 {
			res.Fail("t/complete-stanza-dropped", "%s: stanza %s ended before the cut but was not routed (routed %v, expected %v); errors %v", desc, id, got, want, errs)
			break
		}
		if count[id] > 1 {
			res.Fail("stanza-routed-twice", "%s: stanza %s routed %d times", desc, id, count[id])
		}
		delete(count, id)
	}
	for id := range count {
		res.Fail("incomplete-stanza-routed", "%s: stanza %s was routed although it was not completely sent (complete: %v)", desc, id, want)
	}
	if !gone {
		var sb strings.Builder
		for _, st := range leaked() {
			sb.WriteString(trunc(st, 700))
			sb.WriteString("\n---\n")
		}
		res.Fail("t/goroutine-leak", "%s: library goroutines still alive after the loss was reported:\n%s", desc, sb.String())
	}
	if ws2 > ws1 {
		res.Fail("keepalive-after-loss", "%s: %d keepalive writes arrived after the loss was reported and the goroutines were gone (%d -> %d)", desc, ws2-ws1, ws1, ws2)
	}
	go func() { _ = cl.Disconnect() }()
	return res
}

var c12 = vh.Define(&vh.Def[c12Case]{
	Property: "C12", Name: "cut",
	Rule: "an inbound stream of 1-10 elements (plain and rich stanzas: entities, character references, CDATA incl. ]]> splitting, attributes containing > and quotes, comments, nested same-name descendants; <r/>, <a/>, features) is cut at a generated byte offset (one quarter exactly between elements, the rest uniformly), with and without stream management, over plain TCP, STARTTLS (TLS 1.3 or capped at 1.2) or WebSocket (connection dropped between messages), with and without the traffic logger, in a quarter of the TCP cases after the same Client went through an attempt refused at auth or bind, a lost session, a session ended by a stream error or its own Disconnect (events are counted from there), in a quarter of the plain stream-managed cases the application has 2-3 unacknowledged stanzas, the server's last element is an <a h='0'/> and the server is gone for good when they are sent again; the prefix and the end of the stream leaving the server in separate segments or in one; the peer sends the prefix, half-closes and keeps draining; keepalive interval 15 ms; oracle: at most one error callback and one Disconnected event and at least one of each within the margin, the event carries the SM id when SM is on, every stanza that ended before the cut is routed once and no other, no goroutine with a library frame that did not exist before the case survives (runtime.Stack poll), no keepalive write reaches the peer afterwards; non-trivial = the cut falls strictly inside an element",
	Quick: 300, Thorough: 6000, Journal: true,
	Gen: genC12, Run: runC12,
})

func TestC12_cut(t *testing.T) { c12.Check(t) }

// TestC12_alloffsets enumerates every byte offset of a few fixed streams.
func TestC12_alloffsets(t *testing.T) {
	streams := [][]string{{"m-entities", "r", "m-cdata"}, {"iq-roster", "m-attr"}}
	if vh.Thorough() {
		streams = append(streams, []string{"m-nested", "p-muc", "a", "iq-get"}, []string{"m", "features", "p", "iq-error", "m-cdata", "m-entities"})
	}
	sh, n := vh.Shard()
	k := 0
	for si, items := range streams {
		base := c12Case{Items: items}
		data, _, _ := base.feed()
		for off := 0; off <= len(data); off++ {
			k++
			if k%n != sh {
				continue
			}
			c12.RunCase(t, c12Case{Items: items, Cut: off, SM: (si+off)%2 == 0, TLS: off%3 == 0, TLS12: off%6 == 0, Logger: off%2 == 1 || off%6 == 0, Together: off%4 < 2})
		}
	}
	vh.Extra("C12", "C12_cut", "offsets_enumerated", int64(k))
}

func TestC12_Regress(t *testing.T) { vh.Regress(t, "C12") }

// runC12WS: the WebSocket variant. Complete messages up to the cut offset are sent, then the TCP connection under
// the WebSocket is ended (FIN).
func runC12WS(c c12Case, res vh.Result, baseline map[string]string) vh.Result {
	res.Label("websocket")
	disc0, errs0 := 0, 0 // no prior history over WebSocket
	_, ends, ids := c.feed()
	var want []string
	var msgs []string
	for i, k := range c.Items {
		x, _ := c12ItemXML(k, fmt.Sprintf("s%d", i))
		msgs = append(msgs, wsWrap(x))
	}
	// how many items are complete before the cut
	nItems := 0
	{
		off := 0
		for i, k := range c.Items {
			x, _ := c12ItemXML(k, fmt.Sprintf("s%d", i))
			off += len(x)
			if off <= c.Cut {
				nItems = i + 1
			}
		}
	}
	for i, e := range ends {
		if e <= c.Cut {
			want = append(want, ids[i])
		}
	}
	res.NonTrivial = nItems > 0
	const interval = 15 * time.Millisecond
	script := &peer.Script{Mechs: []string{"PLAIN"}, OfferSM: c.SM, ExpectEnable: c.SM, SMId: "sm-c12"}
	failc := make(chan string, 1)
	cutDone := make(chan struct{})
	srv, err := peer.ListenWS("xmpp", func(wc *peer.WSConn) {
		out := wc.WSNegotiate(script, 10*time.Second)
		if !out.Established {
			failc <- fmt.Sprint(out.Steps)
			return
		}
		for i := 0; i < nItems; i++ {
			wc.Send(msgs[i])
		}
		close(cutDone)
		wc.DropTCP(5 * time.Second)
	})
	if err != nil {
		res.Fail("harness", "listen: %v", err)
		return res
	}
	defer srv.Close()
	cl, rec, _, err := newTestClientCfg(srv.URL, clientOpt{Insecure: true, SM: c.SM, Keepalive: interval})
	if err != nil {
		res.Fail("harness", "NewClient: %v", err)
		return res
	}
	// Connect also reports a failed write of the initial presence when the peer is very fast. When it fails without
	// having announced the session, the connection was lost while the client was still negotiating (on a loaded machine
	// the server can answer the last request, send its messages and drop the connection before the client's last write
	// has returned): the statement is about losses after the session is established, so that case says nothing.
	if cerr := cl.Connect(); cerr != nil && rec.count(xmpp.StateSessionEstablished) == 0 {
		res.Excluded = true
		res.Label("lost-before-the-client-was-established")
		go func() { _ = cl.Disconnect() }()
		return res
	}
	select {
	case <-cutDone:
	case s := <-failc:
		res.Fail("harness-not-established", "not established: %s", s)
		return res
	case <-time.After(20 * time.Second):
		res.Fail("harness", "peer did not reach the cut")
		return res
	}
	desc := fmt.Sprintf("websocket, dropped after %d of %d messages, sm=%v", nItems, len(c.Items), c.SM)
	reported := waitFor(vh.Margin(5*time.Second), func() bool {
		_, errs, _ := rec.snapshot()
		return rec.count(xmpp.StateDisconnected) >= disc0+1 && len(errs) >= errs0+1
	})
	if !reported {
		_, errs, _ := rec.snapshot()
		res.Fail("t/loss-not-reported", "%s: %d Disconnected events and %d error callbacks within the margin", desc, rec.count(xmpp.StateDisconnected)-disc0, len(errs)-errs0)
	}
	routedIDs := func() []string {
		_, _, routed := rec.snapshot()
		var out []string
		for _, p := range routed {
			if k, id := packetID(p); k != "" {
				out = append(out, id)
			}
		}
		return out
	}
	waitFor(vh.Margin(3*time.Second), func() bool { return len(routedIDs()) >= len(want) })
	leaked := func() map[string]string {
		out := map[string]string{}
		for id, st := range libGoroutines() {
			if _, old := baseline[id]; !old {
				out[id] = st
			}
		}
		return out
	}
	gone := waitFor(vh.Margin(3*time.Second), func() bool { return len(leaked()) == 0 })
	states, errs, _ := rec.snapshot()
	nDisc := -disc0
	for _, s := range states {
		if s == xmpp.StateDisconnected {
			nDisc++
		}
	}
	errs = errs[errs0:]
	if nDisc > 1 {
		res.Fail("disconnected-twice", "%s: %d Disconnected events", desc, nDisc)
	}
	if len(errs) > 1 {
		res.Fail("error-callback-twice", "%s: %d error callbacks: %v", desc, len(errs), errs)
	}
	got := routedIDs()
	count := map[string]int{}
	for _, id := range got {
		count[id]++
	}
	for _, id := range want {
		if count[id] == 0 {
			res.Fail("t/complete-stanza-dropped", "%s: stanza %s was completely sent but not routed (routed %v, expected %v); errors %v", desc, id, got, want, errs)
			break
		}
		if count[id] > 1 {
			res.Fail("stanza-routed-twice", "%s: stanza %s routed %d times", desc, id, count[id])
		}
		delete(count, id)
	}
	for id := range count {
		res.Fail("incomplete-stanza-routed", "%s: stanza %s was routed although it was never sent", desc, id)
	}
	if !gone {
		var sb strings.Builder
		for _, st := range leaked() {
			sb.WriteString(trunc(st, 700))
			sb.WriteString("\n---\n")
		}
		res.Fail("t/goroutine-leak", "%s: library goroutines still alive after the loss was reported:\n%s", desc, sb.String())
	}
	go func() { _ = cl.Disconnect() }()
	return res
}

// wsWrap adds the namespace declarations a stand-alone WebSocket message needs.
func wsWrap(s string) string {
	switch {
	case strings.HasPrefix(s, "<message"), strings.HasPrefix(s, "<presence"), strings.HasPrefix(s, "<iq"):
		i := strings.IndexAny(s, " >")
		return s[:i] + " xmlns='jabber:client'" + s[i:]
	case strings.HasPrefix(s, "<stream:features"):
		return strings.Replace(s, "<stream:features", "<stream:features xmlns:stream='"+peer.NSStream+"'", 1)
	}
	return s
}
