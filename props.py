# Per-property driver configuration. Case counts live next to the checks
# (harness/*_test.go, vh.Def.Quick / .Thorough); this table only holds process
# layout: shards (quick, thorough), per-shard time-outs in seconds, optional
# -race pass and native fuzz campaigns (thorough only).
COMMON = [
    "Go 1.23.5 standard library (encoding/xml, net, crypto/tls) and pgregory.net/rapid v1.3.0 behave as documented",
    "the reference model / oracle written in the harness from the property statement is itself correct",
    "the harness is built from /repo's working tree with -tags verif; the verif hooks only forward to unexported code",
]

PROPS = {
    "C02": dict(level="exploration", shards=(4, 16), timeout=(900, 3000), assumptions=COMMON, fuzz=[("FuzzC02", 240)]),
    "C01": dict(level="exploration", shards=(4, 16), timeout=(600, 3000), assumptions=COMMON),
    "C03": dict(level="fault_enumeration", shards=(16, 16), timeout=(1200, 3400), assumptions=COMMON + ["loopback TCP; real TLS handshakes against an in-memory CA; the reference FSM in the harness is the RFC 6120 order as the property states it"]),
    "C04": dict(level="fault_enumeration", shards=(16, 16), timeout=(1200, 3400), assumptions=COMMON + ["crypto/tls and crypto/x509 of Go 1.23 verify chains and host names correctly; the peer tags received elements clear-text / inside-TLS by the connection object they were read from"]),
    "C05": dict(level="exploration", shards=(4, 16), timeout=(900, 3000), assumptions=COMMON + ["loopback TCP / WebSocket deliver bytes in order; quiescence is detected by waiting (up to 5 s, 20 s on the confirming re-run) until the expected number of stanzas was routed"]),
    "C06": dict(level="exploration", shards=(2, 16), timeout=(300, 1500), assumptions=COMMON),
    "C07": dict(level="exploration", shards=(4, 16), timeout=(900, 3000), assumptions=COMMON + ["the two yield points (verif build tag) are the only places where the harness forces an interleaving; other interleavings are those of the Go scheduler"], race=dict(pattern="^TestC07_(iqresult|stress)$", shards=(2, 8), timeout=(900, 3000), scale=0.2, quick=False)),
    "C08": dict(level="exploration", shards=(4, 16), timeout=(900, 3000), assumptions=COMMON + ["the scripted peer's byte-exact capture of each received element is the wire truth"], race=dict(pattern="^TestC08_send$", shards=(2, 8), timeout=(900, 3000), scale=0.25, quick=False)),
    "C09": dict(level="exploration", shards=(4, 16), timeout=(600, 3000), assumptions=COMMON + ["loopback TCP delivers bytes in order; the scripted peer's own count of stanzas it sent is the wire truth"]),
    "C10": dict(level="exploration", shards=(4, 16), timeout=(900, 3000), assumptions=COMMON + ["the order in which the scripted peer receives elements is the wire order; quiescence after each step is detected by waiting for the expected number of elements (4 s, 16 s on the confirming re-run) plus a short settle time"], race=dict(pattern="^TestC10_smqueue$", shards=(2, 8), timeout=(900, 3000), scale=0.25, quick=False)),
    "C11": dict(level="fault_enumeration", shards=(8, 16), timeout=(900, 3000), assumptions=COMMON + ["loopback TCP; the peer's record of the ids it handed out and of the <resume/> elements it received is the truth"]),
    "C12": dict(level="fault_enumeration", shards=(8, 16), timeout=(900, 3000), assumptions=COMMON + ["a half-close on loopback TCP delivers all previously written bytes, then EOF", "stable state is detected by polling runtime.Stack for up to 3 s (12 s on the confirming re-run)"]),
    "C13": dict(level="fault_enumeration", shards=(16, 16), timeout=(1200, 3400), assumptions=COMMON + ["loopback TCP; a closed listener refuses connections; the listener can be reopened on the same port", "reconnection is awaited for 8 s plus the down time (32 s on the confirming re-run); the library's back-off starts at < 20 ms and doubles"]),
    "C14": dict(level="exploration", shards=(4, 16), timeout=(600, 3000), assumptions=COMMON + ["loopback TCP delivers bytes in order; the scripted peer's transcript is what the client wrote"]),
    "C15": dict(level="exploration", shards=(2, 16), timeout=(300, 1500), assumptions=COMMON, fuzz=[("FuzzC15", 60)]),
    "C16": dict(level="exploration", shards=(4, 16), timeout=(600, 3000), assumptions=COMMON + ["loopback TCP delivers bytes in order; the scripted peer's transcript is what the component wrote"]),
    "C17": dict(level="exploration", shards=(2, 16), timeout=(300, 1500), assumptions=COMMON),
    "C18": dict(level="exploration", shards=(4, 16), timeout=(900, 3000), assumptions=COMMON + ["a time.Ticker never fires early, so n ticks need at least n-1 intervals", "liveness verdicts use margins of 100 intervals + 3 s (12 s on the confirming re-run)"]),
    "C19": dict(level="exploration", shards=(2, 16), timeout=(300, 1500), assumptions=COMMON),
    "C20": dict(level="exploration", shards=(2, 16), timeout=(300, 1500), assumptions=COMMON),
}

# Generator health: labels that the design calls essential. If one of them occurs in fewer than 1 % of the cases of
# its check, the run is inconclusive (exit 2): more cases would not help, the generator has to be fixed.
ESSENTIAL = {
    "C01_message": ["metachar-text", "two-or-more-extensions"], "C01_iq": ["metachar-text"], "C01_node": ["node-depth>=2"],
    "C02_stream": ["nested-same-name", "small-reads", "corrupt-truncate", "corrupt-flip"],
    "C03_negotiation": ["expect-success", "resumable-state", "dev-unexpected", "dev-malformed", "dev-close", "websocket", "client-write-fault"],
    "C04_tls": ["expect-auth-inside-tls", "reconnect", "cert-wronghost", "cert-expired"],
    "C05_inbound": ["segmented", "stanza>4KB", "client-ws-sm-on", "component-tcp-sm-off", "feed-glued-to-last-negotiation-reply"],
    "C06_router": ["several-routes-accept", "no-route-accepts", "unhandled-iq-request", "first-match-not-first-route", "response-to-pending-request", "router-used-before"],
    "C07_iqresult": ["parked-at-yield-point", "duplicate-response", "cancellation"],
    "C07_stress": ["racing-cancellation", "abandoned-receiver"],
    "C07_e2e": ["request-from-inside-a-handler", "duplicate-responses", "component", "response-arrives-after-reconnection"],
    "C08_bigwrite": ["logger", "tls"],
    "C08_send": ["concurrent", "send-after-disconnect", "send-after-reported-loss", "client-ws", "client-tls", "component-tcp"],
    "C09_smcount": ["resumption", "r-after-non-stanza", "earlier-connections-without-sm", "enabled-without-resumption"],
    "C10_smqueue": ["ack-with-unacked-suffix", "stale-ack", "ack-beyond-sent", "server-r"],
    "C11_resume": ["resumed", "non-success-reply"],
    "C12_cut": ["tls", "logger", "sm", "websocket", "cut-in-tag", "cut-in-text", "cut-between-elements", "prior-history", "ack-then-connection-gone"],
    "C13_streammanager": ["server-down", "failing-attempts", "end-streamclose", "end-reset", "end-streamerror", "permanent-error", "stop-while-reconnecting", "short-keepalive", "starttls"],
    "C14_sasl": ["no-common-mechanism", "list-changes-across-starttls", "reconnection-with-other-list", "reply-failure", "auth-write-fault", "traffic-logger", "foreign-mechanisms-lookalike"],
    "C15_jid": ["must-reject", "must-accept", "domain-with-resource", "resource-with-slash-or-at"],
    "C16_component": ["id-or-secret-needs-escaping", "reply-stream-error", "reply-unexpected", "reconnection"],
    "C17_fifo": ["pop-after-empty-and-refill", "mixed-peek-pop", "push-of-held-entry", "caller-changes-own-entry"],
    "C18_keepalive": ["ping-failure", "session-end", "end-to-end", "over-starttls", "slow-disconnected-handler", "over-websocket", "after-disconnect-in-flight", "ping-fails-after-reconnection", "post-connect-hook-fails-first"],
    "C19_backoff": ["overflowing-attempt", "reset", "jitter", "no-jitter"],
    "C20_address": ["ipv6", "explicit-port", "ws", "wss", "ws-unusual-host"],
}

NOT_APPLICABLE = {}

# Texts for MANIFEST.json
TEXT = {
    "C07": dict(
        technique="stateful schedule-owning property test (rapid): generated histories of SendIQ / response / read / cancel operations with goroutines parked and released at two yield points compiled in under the verif build tag; -race pass in the thorough tier",
        level_text="Exploration with harness-owned schedules: histories over 1-4 SendIQ requests on a Client or Component (stub Transport) are generated as values; the calling goroutine can be parked between the write of the request and the registration of the pending route, and a goroutine routing a response can be parked after it found the pending entry, so the three logical races of the code (response between write and registration; two responses both past the lookup; delivery racing with an abandoned or cancelled receiver) are produced deterministically and shrink like any other value. Oracle: no panic, no route call outlives the contexts, at most one response per channel and only its own id, no response in two places, the caller of a written, uncancelled, read request gets exactly the first response, the channel is closed and the entry removed, unknown ids go to the ordinary route once.",
        level_note="Only interleavings that pass through the two yield points are forced; the rest is left to the Go scheduler (and to -race in the thorough tier). Requests with clashing ids only get the safety assertions (which of them receives the response is not specified). 2000 histories + 120 stress cases (50-400 rounds each) quick, 100k + 4000 thorough. The stress check (start barrier, concurrent duplicates, racing cancellation) covers interleavings away from the yield points statistically. A third check (C07_e2e, 120 / 3000 cases) runs requests through the real receive loop of a Client or Component against the scripted peer, for a Client also from inside a route handler that waits for its answer, with single and repeated responses.",
    ),
    "C08": dict(
        technique="property-based concurrency stress (rapid) with a byte-exact wire oracle on the scripted peer, plus write-fault injection on a stub Transport; -race pass in the thorough tier",
        level_text="Exploration: G x K concurrent Send / SendRaw / SendIQ calls with unique ids and payloads up to 64 KB over client/TCP, client/TLS, client/WebSocket and component/TCP, with stream management and the traffic logger on or off; the peer captures the exact bytes of every element: each accepted send must arrive exactly once and byte-identical, nothing else and nothing unparsable may arrive, accepted stanzas must be held under SM, sends after Disconnect must fail without panic. A second check injects Write failures at generated indices on a stub Transport: an error is returned exactly when the write failed and each success is exactly one Write of the serialised bytes. A third check (C08_bigwrite) sends a 24-40 MB stanza over real TCP (plain / STARTTLS, logger on/off, client / component) while the server reads a little and resets the connection: the call must return an error.",
        level_note="Interleavings are those the Go scheduler produces (16 goroutines, 16 cores) plus the race detector in the thorough tier; they are not enumerated. 120 stress cases + 3000 fault cases + 32 big writes quick; 4000 + 200k + 400 thorough.",
    ),
    "C18": dict(
        technique="property-based fault injection (rapid): generated interval / failing-keepalive index / session-end time on a stub Transport and on a real Client with a wrapped Transport against the scripted peer",
        level_text="Exploration: generated intervals (2-40 ms), a write failure at the k-th keepalive for k in 1-10, or a session end at a generated time relative to the ticker; run on the bare keepalive loop with a recording stub Transport (verif export) and end to end with a real Client whose Transport is wrapped, over clear-text TCP or after STARTTLS (the keepalive must arrive inside the TLS stream and a stanza sent after the steady phase must still be routed). Rate bound (sound: a ticker never fires early), presence of at least one keepalive within a generous margin, single-newline content on the wire, exactly one Close and no further keepalive after a failed write, loss reported once, loop termination and silence after the session ended.",
        level_note="Schedules are those the Go scheduler produces at generated times; the loop has two select arms, so at most one keepalive can race with the session end (allowed for max(3 intervals, 100 ms)). 60 cases quick, 1200 thorough (each case sleeps for 4-14 intervals).",
    ),
    "C13": dict(
        technique="fault-sequence property test (rapid): generated sequences of losses, refusals and failing reconnection attempts against a Client run by StreamManager; oracle on the scripted peer's accept log",
        level_text="Fault enumeration over the loss alphabet {TCP reset, graceful close, </stream:stream>} x {server keeps listening, refuses connections for a while} x {0-3 reconnection attempts cut at stream open / auth / bind} x {resumption confirmed, refused} x {finally accepted, permanently rejected by SASL failure}, composed into generated sequences of 1-3 losses. After each loss exactly one new session must appear (resumed when allowed), exactly failing-attempts+1 connections may reach the server, the new session must carry traffic both ways, PostConnect must have run once per session, a permanent error must end the retries, Stop must make Run return.",
        level_note="64 sequences quick (each costs seconds: every failed attempt waits ConnectTimeout = 1 s in the library's Close), 2500 thorough. Waiting times are bounded (8 s + down time per reconnection; confirmed with 4x margins before a violation is reported); the number of refused dial attempts while the listener is closed cannot be observed and is not asserted. Sessions are counted, not attempts; a permanent error is only asserted when the refusing connection got as far as <auth/>; verdicts about the number of sessions depend on schedules the harness does not own and are confirmed by one re-run of the same case (DESIGN.md section 6 describes an unexplained residue of about one sequence in a thousand).",
    ),
    "C11": dict(
        technique="history/fault-sequence property test (rapid): connection histories with every reply to <resume/>, real Client (Connect + Resume) against the scripted peer; model of the resumable id and counters",
        level_text="Fault enumeration over the reply alphabet of <resume/> (resumed same id, other id, <failed/> empty / with h / with each XEP-0198 condition, unexpected element, malformed, close) x SM advertised or not, composed into generated histories of 2-5 connections of one Client. A model tracks the id handed out at the last enable and the stanzas received on that session: <resume/> only with that id and count; same id => no bind and identity, counter and held stanzas kept; <failed/> => fresh bind; anything else => stale id dropped, never presented again, old session not continued.",
        level_note="300 histories quick, 12k thorough. A reconnection on which SM is not advertised only gets the first sentence of the property asserted (the id presented later must be the one from the last enable); the inbound count is not asserted after such a connection.",
    ),
    "C10": dict(
        technique="history-based model test (rapid): generated Send/SendRaw/ack histories on a real Client; reference model of the held queue driven by the wire truth recorded by the scripted peer; -race pass in the thorough tier",
        level_text="Exploration: generated outbound histories (Send, SendRaw, SendIQ, Send(SMRequest), server <r/>, server <a h=N/> with N below / equal to / above the number received, stale and repeated, concurrent bursts) run against a real stream-managed Client; the peer records every element in arrival order; after every step the client's queue must equal the unacknowledged wire stanzas of the model, and after <a h=N/> exactly the stanzas beyond N must arrive again in order followed by one <r/> (nothing when none is left); <r/>/<a/> are never held.",
        level_note="1200 histories quick, 40k thorough plus a -race pass. The initial presence written by Connect counts for the server's h but was not accepted by an application Send: whether it is held is not asserted. Under concurrent senders queue and wire are compared as multisets.",
    ),
    "C04": dict(
        technique="exhaustive enumeration of the TLS configuration/fault space + rapid sampling; real TLS handshakes with generated certificates; transcript oracle (clear-text vs inside-TLS)",
        level_text="Fault enumeration: every combination of client settings (Insecure, TLSConfig nil / test CA / InsecureSkipVerify, ServerName unset / domain / other), server STARTTLS behaviour (absent, offered, required; proceed, failure, unexpected, malformed, close), certificate (valid, wrong host, untrusted, expired, other-name-only, both) and first connection / reconnection is run against the scripted peer with a real TLS handshake (3240 combinations: all in the thorough tier, a seed-selected tenth plus 400 random ones in the quick tier). The peer tags each received element as clear text or inside TLS: no <auth/> or stanza may appear in clear text with Insecure off, none inside TLS when the certificate does not validate, and the legitimate combinations must authenticate inside TLS.",
        level_note="wss:// needs system roots and is not exercised (documented in DESIGN.md); ws:// is covered for the clear-text rule only. The reconnection dimension uses Client.Resume after a server-side drop.",
    ),
    "C03": dict(
        technique="fault-script enumeration + property-based generation (rapid) of negotiation scripts against a reference FSM; real Client against the scripted peer with real TLS",
        level_text="Fault enumeration: single faults {negotiation step} x {failure / stanza error incl. echoed payload, stream error, 8 unexpected elements, 5 malformed forms, 4 truncations, close, half-close} x {client configuration} are enumerated (completely in the thorough tier, a seed-selected 1/24 slice in the quick tier) and scripts with 0-2 deviations, success variants and resumable state from a real earlier connection are generated with rapid. A reference FSM decides the expected request sequence and outcome: Connect nil and one SessionEstablished event iff the server completed every mandatory step the client reaches, requests in FSM order and never beyond the fault, no request pending before the previous reply (one-directional look-ahead), bounded return time, no panic.",
        level_note="TCP and (a quarter of the generated scripts) WebSocket framing, which has no STARTTLS step; the single-fault enumeration is TCP only. In a fifth of the generated TCP scripts the client's own write of auth / bind / session / enable fails in a wrapped Transport and counts as a fault at that step. A silent server (no reply at all) is not in the property's fault alphabet and is not generated. When the server marks the session feature optional the model follows whether the client opened it. Connect-hang and slowness verdicts are confirmed by a re-run with 4x margins.",
    ),
    "C12": dict(
        technique="crash-point enumeration: every byte offset of fixed inbound streams plus rapid-generated streams and offsets; real Client against the scripted peer; goroutine-dump and transcript oracles",
        level_text="Fault enumeration: the server-to-client stream is cut (prefix, then half-close) at every byte offset of a few fixed streams (all offsets enumerated: between stanzas, inside tags, attributes, text, entities, CDATA, comments) and at generated offsets of generated streams, with and without stream management. Oracle per cut: one error callback and one Disconnected event (with the SM id), every stanza complete before the cut routed exactly once and nothing else, no surviving library goroutine, no keepalive write afterwards.",
        level_note="Read-side cuts only (crash_points of the inbound stream, as the property states), over plain TCP and STARTTLS (TLS 1.3 / 1.2), with and without the traffic logger, the end of the stream in the same or a separate segment; the enumeration is complete for the fixed streams (~600 offsets quick, ~1500 thorough), sampled for generated ones. Timing-dependent verdicts (loss not reported, goroutine leak) are confirmed by a re-run with 4x margins.",
    ),
    "C05": dict(
        technique="history-based property test (rapid) of real Client/Component sessions against the scripted peer (TCP and WebSocket); multiset oracle over routed stanza ids",
        level_text="Exploration: generated inbound histories (stanzas of every kind with unique ids and sizes up to 30 KB, <r/>, <a/>, other non-stanza elements) x client/TCP, client/WebSocket, component/TCP x three stream-management modes x write segmentations / WebSocket continuation frames x three endings; a catch-all route records every routed stanza; after quiescence the routed multiset must equal the sent multiset, components must keep arrival order, every <r/> must be answered. A library panic kills the test process and is reported by the driver with the journalled case.",
        level_note="The interleavings of the per-packet routing goroutines are those the Go scheduler produces (plus -race in the thorough tier); they are not enumerated. Missing-stanza verdicts wait 5 s and are confirmed by a re-run with 4x margins before being reported.",
    ),
    "C09": dict(
        technique="history-based property test (rapid) of a real Client against a scripted peer that keeps the wire truth",
        level_text="Exploration: generated inbound histories over stanzas, <r/>, <a/> and other non-stanza elements on 1-4 successive connections of one stream-managed session (drop + Resume in between), the server's <enabled/> allowing resumption or not; the peer counts the stanzas it sent and compares the h of every <a/> answer and of every <resume/> with that count, and previd with the id it gave.",
        level_note="2000 histories quick, 24k thorough, up to 60 elements per connection. The <a/> elements sent by the peer carry a very large h so that the (separate, C10) retransmission logic stays quiet.",
    ),
    "C16": dict(
        technique="property-based test (rapid) of a real Component against a scripted XMPP peer; digest recomputed by the harness; reply alphabet enumerated by variant",
        level_text="Exploration: generated stream ids (attribute-legal text incl. entities, quotes, non-ASCII, empty) and secrets (arbitrary bytes) crossed with the server's reply (handshake in 3 forms, 8 stream errors, 8 unexpected elements, 4 malformed forms, truncated, closed); a real Component connects over loopback TCP; the handshake text must be the lower-case hex SHA-1 of id||secret, and Connect nil / state established / next stanza routed must hold exactly when the reply was <handshake/>.",
        level_note="2000 connections quick, 24k thorough. Fault replies are sampled per case rather than enumerated for every id, since id/secret and reply are independent in the code.",
    ),
    "C14": dict(
        technique="property-based test (rapid) of a real Client against a scripted XMPP peer; oracle on the peer's transcript",
        level_text="Exploration: generated user names (everything NewJid accepts), secrets (arbitrary bytes), credential kind, server mechanism lists and server replies; a real Client connects over loopback TCP to a scripted peer which records the <auth/> element; the decoded payload must equal NUL local NUL secret byte for byte, the mechanism must be advertised and supported, no common mechanism must mean nothing is sent after the stream header and a permanent error, <failure/> must be a permanent error, and anything but <success/> must not authenticate - also when the write of <auth/> itself is faulted in a wrapped Transport (no bytes and no error, an error, half of the bytes).",
        level_note="3000 connections quick, 24k thorough (bounded by the ephemeral-port budget of the machine). Only TCP (the WebSocket transport shares authSASL). Assumes the peer's XML reader reports what was on the wire.",
    ),
    "C02": dict(
        technique="grammar-based property test (rapid) with a reference element list, metamorphic read-segmentation relation, truncation/corruption fault injection, child-process deep-nesting probes, native go fuzzing",
        level_text="Exploration: streams are generated from a grammar as values (header, 0-8 top-level elements of every kind NextPacket dispatches, child forests with unknown extensions, CDATA, comments and same-name descendants), serialised by an independent serialiser that records element end offsets, and read through generated segmentations; the k-th NextPacket result must have the kind and addressing of the k-th element, unknown elements must error, segmentation must not change the packets, truncation must return exactly the complete prefix then an error, corrupted bytes must end in an error without panic or hang. Deep nesting (to 60000 levels quick, 450000 thorough) is probed in child processes. 30k streams quick, 3M + 4 min of native fuzzing thorough.",
        level_note="Totality is searched, not proved. The deep-nesting probes use a reduced goroutine stack limit (64 MB) as an amplifier in the quick tier; the thorough tier also uses the default stack. Two known findings (unbounded recursion through <forwarded/> chains) are listed in KNOWN_FINDINGS.txt.",
    ),
    "C01": dict(
        technique="property-based round-trip and metamorphic (text-substitution) test with a reflection-guided generator over the library's stanza types (rapid)",
        level_text="Exploration: values of Message, Presence, IQ (every registered payload type, generic Node trees), Err, the stream-management / SASL / handshake elements are generated field by field through reflection over the library's own types (strings over all XML-legal code points), serialised, parsed back both with xml.Unmarshal and with stanza.NextPacket on a stream, and compared field by field; the re-serialised bytes must be identical; the element/attribute skeleton must equal that of the same value with every text replaced by 'x' (no injection); the output must be one well-formed element. A completeness probe fails the run if the repository registers an extension type the generator does not know. ~80k values quick, ~4M thorough.",
        level_note="Depth-bounded values (Node depth <= 4, one level of <forwarded/> nesting). Fields that are raw by design (SASLAuth.Value, Handshake.Value, HTMLBody.InnerXML) and element-name fields (Err.Reason, Node names) are generated from their documented alphabets only. One known finding (CR inside the CDATA-serialised Note.Text) is listed in KNOWN_FINDINGS.txt.",
    ),
    "C06": dict(
        technique="property-based differential test (rapid): generated route tables and packets against a reference router",
        level_text="Exploration: generated route tables (0-6 routes, every conjunction of name/type/namespace matchers) and packets of every kind are dispatched through the real Router.route (verif export) and compared with a reference router written from the package comment: first accepting route only, exactly once; one feature-not-implemented error for unhandled IQ get/set and no reply otherwise; with IQ requests pending on the router, a response to one of them reaches only its channel and every other packet is routed as usual. 50k cases quick, 3M thorough; matchers are biased so that >40% of cases have several accepting routes or none.",
        level_note="Bounded table size (6) and a fixed alphabet of names/types/namespaces; IQs with an unknown (unregistered) payload are never matched against a namespace matcher naming that namespace, because that behaviour is not documented. Packets come from the library's own parser.",
    ),
    "C15": dict(
        technique="property-based test (rapid) against a reference JID parser + Full()/Bare() round trip; native go fuzzing in the thorough tier",
        level_text="Exploration: strings built from (local, domain, resource) triples over accepted and every rejected character class, plus arbitrary strings, are parsed by stanza.NewJid and compared with a reference parser written from the statement; every accepted JID is rendered with Full() and Bare() and parsed again. 200k cases quick, 8M + 60 s native fuzzing thorough.",
        level_note="Characters the code does not name but RFC 7622 forbids (e.g. '&') get the round-trip assertion only; strings with '/' before the first '@' are excluded as the property says (counted in the evidence).",
    ),
    "C19": dict(
        technique="property-based test (rapid) against an exact math/big reference of min(cap, base*factor^n)",
        level_text="Exploration: generated (base, factor, cap, jitter) settings over the whole range whose millisecond value fits a time.Duration, attempt numbers up to 10^6 (far beyond float64 overflow), queried both through durationForAttempt(n) on fresh and used structures and through stateful duration()/reset() sequences, compared with an exact big-integer reference: equality and monotonicity without jitter, 0 <= d <= reference with jitter, never negative or above the cap.",
        level_note="Uses the verif export VerifBackoff (thin forwarder to the unexported backoff). Above 2^53 a relative tolerance of 2^-39 is allowed for float64 rounding. With jitter only the bounds can be asserted.",
    ),
    "C20": dict(
        technique="property-based test (rapid): generated address forms, oracle net.SplitHostPort + expected host/port/transport type",
        level_text="Exploration: generated DNS names, IPv4 and IPv6 literals of eight shapes (bracketed or bare, zones, IPv4-mapped, either case) crossed with port absent/present (0-65535) and ws:// / wss:// URLs are passed to NewClientTransport and NewComponentTransport; the dialled address must split into the given host and the explicit port or 5222, and the scheme must select/refuse the WebSocket transport.",
        level_note="Bare IPv6 directly followed by :port is excluded (ambiguous, per the property) and counted; a host literally named ws/wss with a port is excluded as ambiguous with the URL scheme.",
    ),
    "C17": dict(
        technique="stateful model-based property test (rapid): generated operation sequences against a reference slice",
        level_text="Exploration: every generated operation sequence (20k quick / 2M thorough) (including pushes of entries the caller already holds and the caller overwriting entries it owns) is applied to stanza.UnAckQueue and to a reference FIFO and compared after every step (return values, contents, peek purity, strictly increasing ids). The property quantifies over all histories; generated search with shrinking is the family's direct tool and the state space (queue contents x k classes) is small enough that short sequences cover every branch of the six methods.",
        level_note="Not a proof: sequences are bounded to 40 operations; assumes the reference slice model written from the statement is right.",
    ),
}
