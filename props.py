# Per-property driver configuration. Case counts live next to the checks
# (harness/*_test.go, vh.Def.Quick / .Thorough); this table only holds process
# layout: shards (quick, thorough), per-shard time-outs in seconds, optional
# -race pass and native fuzz campaigns (thorough only).
COMMON = [
    "Go 1.23.5 standard library (encoding/xml, net, crypto/tls) and pgregory.net/rapid v1.3.0 behave as documented",
    "the reference model / oracle written in the harness from the property statement is itself correct",
    "the harness is built from /repo's working tree with -tags verif; the verif hooks only forward to unexported code",
]

PROPS = {
    "C17": dict(level="exploration", shards=(2, 16), timeout=(300, 1500), assumptions=COMMON),
}

NOT_APPLICABLE = {}

# Texts for MANIFEST.json
TEXT = {
    "C17": dict(
        technique="stateful model-based property test (rapid): generated operation sequences against a reference slice",
        level_text="Exploration: every generated operation sequence (20k quick / 2M thorough) is applied to stanza.UnAckQueue and to a reference FIFO and compared after every step (return values, contents, peek purity, strictly increasing ids). The property quantifies over all histories; generated search with shrinking is the family's direct tool and the state space (queue contents x k classes) is small enough that short sequences cover every branch of the six methods.",
        level_note="Not a proof: sequences are bounded to 40 operations; assumes the reference slice model written from the statement is right.",
    ),
}
