#!/usr/bin/env python3
"""Development aid: turn survey entries (VERIF_SURVEY=1 runs) into regress case files.
usage: tools_survey2regress.py <survey.json> <property> [key-substring ...]"""
import json, os, re, sys
ROOT = os.path.dirname(os.path.abspath(__file__))
sv = json.load(open(sys.argv[1])); prop = sys.argv[2]; subs = sys.argv[3:]
os.makedirs(os.path.join(ROOT, "regress", prop), exist_ok=True)
for e in sv:
    if subs and not any(s in e["key"] for s in subs):
        continue
    name = re.sub(r"[^A-Za-z0-9]+", "-", e["key"]).strip("-")[:90]
    path = os.path.join(ROOT, "regress", prop, name + ".json")
    json.dump(dict(property=prop, check=e["check"], case=e["case"], note="class " + e["key"] + ": " + e["example"][:300]), open(path, "w"), indent=1)
    print(path)
