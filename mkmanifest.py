#!/usr/bin/env python3
"""Regenerates MANIFEST.json from props.py (claimed checks) and properties.jsonl."""
import json, os, subprocess, sys
ROOT = os.path.dirname(os.path.abspath(__file__))
sys.path.insert(0, ROOT)
from props import PROPS, TEXT, NOT_APPLICABLE

ids = [json.loads(l)["id"] for l in open(os.path.join(ROOT, "properties.jsonl")) if l.strip()]
hooks = subprocess.run(["git", "-C", "/repo", "log", "--format=%H %s"], stdout=subprocess.PIPE, text=True).stdout.splitlines()
hook_commits = [l.split()[0] for l in hooks if " verif hook:" in l]
checks = []
for pid in ids:
    if pid not in PROPS:
        continue
    c = PROPS[pid]
    t = TEXT[pid]
    checks.append(dict(
        property_id=pid,
        quick_cmd="./run %s quick" % pid,
        thorough_cmd="./run %s thorough" % pid,
        evidence_file="/verif/evidence/%s.json" % pid,
        replay_cmd_template="./run %s --replay {path}" % pid,
        engine="harness",
        level_claimed=dict(category=c["level"], text=t["level_text"], design_ref=t.get("design_ref", "DESIGN.md §5 " + pid)),
        level_note=t["level_note"],
        technique=t["technique"],
    ))
na = [dict(property_id=p, reason=NOT_APPLICABLE.get(p, "check not built yet (work in progress); no claim is made")) for p in ids if p not in PROPS]
m = dict(
    version=1,
    setup_cmd="./setup",
    hooks=dict(guard="verif (Go build tag)", enable="go test -tags verif (the driver ./run builds the harness module, which replaces gosrc.io/xmpp by /repo's working tree, with -tags verif)",
               baseline_off_cmd="cd /repo && GOFLAGS=-mod=mod GOPROXY=off GOSUMDB=off go test -vet=off -count=1 ./...",
               source_commits=hook_commits[::-1], add_only=True),
    engines=[dict(name="harness", path="/verif/harness", serves_properties=[c["property_id"] for c in checks],
                  kind_free_text="Go test binary (pgregory.net/rapid v1.3.0 property-based tests, stateful models, scripted XMPP peer, native go fuzz targets) driven by /verif/run")],
    checks=checks,
    not_applicable=na,
    notes="Driver: ./run <Cxx> quick|thorough|--replay <file>. Exit 0 held, 1 violation (VIOLATION line), 2 inconclusive. Known findings: KNOWN_FINDINGS.txt. See DESIGN.md.",
)
json.dump(m, open(os.path.join(ROOT, "MANIFEST.json"), "w"), indent=1)
print("claimed:", [c["property_id"] for c in checks], "not claimed:", [x["property_id"] for x in na])
